"""C07 -- SRT/WebVTT outputs are grammatical and tags reflect the computed styles.   Level: other (proved kernels + bounded).

Proof tier (all rational times / all rational region geometries; real code executed symbolically):
  * SrtParagraph.to_string / VttCue.to_string: raise exactly when the end, rounded to the millisecond, is not after the rounded
    begin (the converse for equal rounded times is bounded); never for an interval longer than 1 ms (an interval of exactly
    1 ms between two ties vanishes under round-half-even); a serialised cue has begin <= end, its timing line has the
    fixed shape `HH:MM:SS,mmm --> HH:MM:SS,mmm` (SRT) / `HH:MM:SS.mmm --> HH:MM:SS.mmm` (WebVTT) with in-range fields and the
    cue number on the first line (SRT);
  * VttContext.process_p: the `line` setting is the rounded computed position of the region for its display alignment
    (before: top edge, after: bottom edge, center: middle), at most 0.5 away from it, inside 0..100 when the region is inside
    the root container, with the matching line alignment; the `align` setting follows textAlign x direction.
Bounded tier: rtc/c07.py (strict grammar parsers + per-character style runs of specs/cues.py over generated documents x writer
configurations; normalize_eol / blank test exhaustively over short strings).
"""
from __future__ import annotations

from fractions import Fraction

import framework
from pyvc import core
from pyvc.core import assume, prove, sym_frac
from pyvc.harness import Harness

import ttconv.style_properties as sp
from ttconv.isd import ISD
from ttconv.srt.paragraph import SrtParagraph
from ttconv.vtt.cue import VttCue
from ttconv.vtt.writer import VttContext
from ttconv.vtt.config import VTTWriterConfiguration

PROP = "C07"
SP = sp.StyleProperties
BOUND = 2 ** 22     # seconds (about 48 days): keeps the float comparison of to_string exact at millisecond resolution

ASSUMPTIONS = [
  "A-PY/A-SMT as in C12 (pyvc's model of CPython int/Fraction/float arithmetic; soundness of z3/cvc5 `unsat`)",
  "A-SPEC: specs/cues.py is my reading of the WebVTT file / cue text / cue settings grammar (W3C WebVTT 4.1-4.5) and of SubRip "
  "(counter, `HH:MM:SS,mmm --> HH:MM:SS,mmm`, text lines, blank line; tags <b> <i> <u> <font color>); CRLF, CR and LF are line terminators",
  "an empty line is a line of length zero; a line of white space only is accepted in a payload (and may also be dropped)",
  "SubRip has no escape mechanism: `-->` inside an SRT payload is flagged only when a payload line has the form of a timing line; in "
  "WebVTT any `-->` in a payload is flagged (cue text must not contain it)",
  "fontStyle oblique may be written as italic or not; text decorations other than underline have no tag; colours are accepted as "
  "#rrggbb, #rrggbbaa, rgb()/rgba() or CSS names; the default colour is opaque white, the default background transparent",
  "WebVTT classes are resolved through the STYLE block of the output, then through the WebVTT default classes (white, lime, ... bg_black); "
  "the background of a character is the innermost enclosing span background that is not fully transparent (paragraph, division, body "
  "and region backgrounds are not demanded)",
  "computed styles are taken from ttconv's own ISD.from_model (C03/C13 cover their correctness); a cue is matched to the snapshot at the "
  "latest change time that rounds to its begin; tags are compared only for cues whose text equals the reference text (text is C06)",
  "with line_position every region has its own cue: cues of the same interval may follow each other, in region order; `line` must be a "
  "percentage within 0.5 of the region's computed edge for its displayAlign (vertical writing modes are not checked); a missing line "
  "alignment means start; line / align must be absent when the corresponding option is off",
  "`align`: start/end may be written as such or resolved by the direction (ltr: left/right, rtl: right/left); center may be omitted; the "
  "setting is demanded only when all paragraphs that went into the cue compute the same textAlign and direction",
  "visibility/opacity, set-animation of elements with a non-zero begin (known finding of C02) and rubies with timed parts (known finding "
  "of C01) are not generated; documents on which ISD generation raises for a partial ruby are skipped",
  "proof tier: times below 2^22 s; the region geometry is a rational percentage (ISD lengths in rh)",
]

FUNCTIONS_B = ["ttconv.srt.writer:from_model", "ttconv.srt.writer:SrtContext.append_element", "ttconv.srt.writer:SrtContext.add_isd",
               "ttconv.srt.writer:SrtContext.finish", "ttconv.vtt.writer:from_model", "ttconv.vtt.writer:VttContext.process_inline_element",
               "ttconv.vtt.writer:VttContext.process_p", "ttconv.vtt.writer:VttContext.add_isd", "ttconv.vtt.writer:VttContext.style_block",
               "ttconv.vtt.css_class:CssClass.__str__", "ttconv.srt.style:is_element_bold", "ttconv.vtt.style:get_color_classname",
               "ttconv.filters.isd.supported_style_properties:SupportedStylePropertiesISDFilter.process",
               "ttconv.filters.isd.default_style_properties:DefaultStylePropertyValuesISDFilter._process_element",
               "ttconv.filters.supported_style_properties:SupportedStylePropertiesFilter.process_element",
               "ttconv.srt.paragraph:SrtParagraph.normalize_eol", "ttconv.vtt.cue:VttCue.normalize_eol"]


def _ms(fields):
  h, mi, s, t = fields
  return ((h * 60 + mi) * 60 + s) * 1000 + t


def to_string_harness(kind, part="validity"):
  """part "validity" (C07): raises / begin < end / shape of the timing line; part "times" (C06): the written times are the
  interval bounds rounded to the millisecond"""
  cls, sep, qual = (SrtParagraph, ",", "ttconv.srt.paragraph:SrtParagraph") if kind == "srt" else (VttCue, ".", "ttconv.vtt.cue:VttCue")

  def run(ctx):
    b, e = sym_frac("b"), sym_frac("e")
    assume(b >= 0)
    assume(e >= 0)
    assume(b < BOUND)
    assume(e < BOUND)
    p = cls(7)
    core.call_real(p.set_begin, b)
    core.call_real(p.set_end, e)
    p.append_text("x")
    st, out = core.call_real(p.to_string, allowed=(ValueError,))
    rb, re_ = round(b * 1000), round(e * 1000)
    if part == "times":
      if st == "ok":
        lits, toks = core.tokens_in(out)
        v = [x for x, _ in toks]
        prove(len(v) == 8, "eight-time-fields")
        prove(_ms(v[0:4]) == rb, "written-begin==interval-begin-rounded-to-the-millisecond")
        prove(_ms(v[4:8]) == re_, "written-end==interval-end-rounded-to-the-millisecond")
        prove((_ms(v[0:4]) - b * 1000 <= Fraction(1, 2)) & (b * 1000 - _ms(v[0:4]) <= Fraction(1, 2)), "written-begin-within-0.5ms")
        prove((_ms(v[4:8]) - e * 1000 <= Fraction(1, 2)) & (e * 1000 - _ms(v[4:8]) <= Fraction(1, 2)), "written-end-within-0.5ms")
      return
    if st == "raise":
      prove(re_ <= rb, "raises-only-when-the-rounded-end-is-not-after-the-rounded-begin")
      prove(e - b <= Fraction(1, 1000), "never-raises-for-an-interval-longer-than-1ms")
    else:
      # (that equal rounded times always raise needs the determinism of float arithmetic, which the float model does not
      # carry: bounded tier, contract "to_string raises iff the rounded times coincide")
      prove(rb <= re_, "serialised-cue-has-begin<=end")
      lits, toks = core.tokens_in(out)
      prove(lits == ["7\n", ":", ":", sep, " --> ", ":", ":", sep, "\nx\n"], "timing-line-shape", note=repr(lits))
      prove([spec for _, spec in toks] == ["02d", "02d", "02d", "03"] * 2, "fields-are-zero-padded", note=repr([s for _, s in toks]))
      v = [x for x, _ in toks]
      for k in (0, 4):
        prove((v[k] >= 0) & (v[k + 1] >= 0) & (v[k + 1] < 60) & (v[k + 2] >= 0) & (v[k + 2] < 60) & (v[k + 3] >= 0) & (v[k + 3] < 1000),
              "fields-in-range" + ("(begin)" if k == 0 else "(end)"))

  return Harness(f"{cls.__name__}.to_string" + (".times" if part == "times" else ""), run, [qual + ".to_string", qual + ".set_begin", qual + ".set_end", "ttconv.time_code:ClockTime.from_seconds",
                                                     "ttconv.time_code:ClockTime.to_seconds", "ttconv.time_code:ClockTime.__str__"],
                 "replayers.c07:to_string", {"kind": kind},
                 "cue times are the interval bounds rounded to the millisecond" if part == "times" else
                 "begin --> end with begin <= end, in-range zero-padded fields; serialisation fails only for intervals that vanish at millisecond precision")


from replayers.c07 import region_and_p as _region_and_p    # shared with the native replayers (which run without the solver)


def line_harness(display_align):
  def run(ctx):
    top, h = sym_frac("top"), sym_frac("height")
    assume(top >= 0)
    assume(h >= 0)
    assume(top + h <= 100)
    isd = ISD(None)
    region, p = _region_and_p(isd, top, h, display_align)
    vtt = VttContext(VTTWriterConfiguration(line_position=True))
    core.call_real(vtt.process_p, region, p, Fraction(0), Fraction(1))
    cue = vtt._paragraphs[-1]    # pylint: disable=protected-access
    want, align = {sp.DisplayAlignType.before: (top, VttCue.LineAlignment.start), sp.DisplayAlignType.after: (top + h, VttCue.LineAlignment.end),
                   sp.DisplayAlignType.center: (top + h / 2, VttCue.LineAlignment.center)}[display_align]
    line = cue.get_line()
    prove((line - want <= Fraction(1, 2)) & (want - line <= Fraction(1, 2)), "line-within-0.5-of-the-computed-edge")
    prove((line >= 0) & (line <= 100), "line-is-a-percentage-in-0..100")
    prove(core.vc_isinstance(line, int), "line-is-an-integer")
    prove(cue.get_align() is align, "line-alignment-follows-displayAlign")
    st, out = core.call_real(cue.to_string, allowed=())
    lits, toks = core.tokens_in(out)
    prove(len(lits) == 2 and lits[0].endswith(" --> 00:00:01.000 line:") and lits[1] == f"%,{align.value}\nx\n" and toks[-1][1] == "" and toks[-1][0] is line,
          "line-setting-serialised", note=repr(lits))

  return Harness(f"VttContext.process_p.line[{display_align.value}]", run, ["ttconv.vtt.writer:VttContext.process_p", "ttconv.vtt.cue:VttCue.__str__"],
                 "replayers.c07:line", {"display_align": display_align.value},
                 "cue setting line = rounded computed position of the region for its display alignment, inside 0..100")


def align_harness():
  def run(ctx):
    table = {(sp.TextAlignType.center, sp.DirectionType.ltr): "center", (sp.TextAlignType.center, sp.DirectionType.rtl): "center",
             (sp.TextAlignType.start, sp.DirectionType.ltr): "left", (sp.TextAlignType.start, sp.DirectionType.rtl): "right",
             (sp.TextAlignType.end, sp.DirectionType.ltr): "right", (sp.TextAlignType.end, sp.DirectionType.rtl): "left"}
    b = Fraction(0)
    for (ta, di), want in table.items():
      isd = ISD(None)
      region, p = _region_and_p(isd, 10, 10, sp.DisplayAlignType.after, ta, di)
      vtt = VttContext(VTTWriterConfiguration(text_align=True, cue_id=False))
      core.call_real(vtt.process_p, region, p, b, b + 1)
      st, out = core.call_real(vtt._paragraphs[-1].to_string, allowed=())   # pylint: disable=protected-access
      lits, _ = core.tokens_in(out)
      prove(lits[-1].endswith(f" --> 00:00:01.000 align:{want}\nx\n"), f"align[{ta.value},{di.value}]=={want}", note=repr(lits[-1]))

  return Harness("VttContext.process_p.align", run, ["ttconv.vtt.writer:VttContext.process_p", "ttconv.vtt.cue:VttCue.__str__"],
                 "replayers.c07:align", {}, "cue setting align follows the paragraph's textAlign and direction (finite table, enumerated completely)")


WRITER_SHAPES = [("styled", ("ab", "ae")), ("styled", ("pe", "ab")), ("twop", ("b1", "e1")), ("nested", ("s1b", "s3e")), ("rubyparts", ("rtb", "rte"))]
WRITER_SHAPES_THOROUGH = [("styled", ("pb", "ab", "ae")), ("twop", ("b1", "e1", "e2")), ("regions", ("r1b", "r1e"))]


def all_harnesses(tier):
  from contracts.c12 import clock_harnesses
  hs = [to_string_harness("srt"), to_string_harness("vtt")] + [line_harness(d) for d in sp.DisplayAlignType] + [align_harness()]
  hs += [h for h in clock_harnesses() if h.name.startswith("ClockTime.from_seconds")]      # discharge the callee contract used below
  for shape, mask in WRITER_SHAPES + (WRITER_SHAPES_THOROUGH if tier != "quick" else []):
    for fmt in ("srt", "vtt"):
      hs.append(writer_harness(fmt, shape, mask))
  for shape, mask in [("moving", ("ab", "ae")), ("moving", ("ob", "oe")), ("twop", ("b1", "e1"))]:
    hs.append(writer_harness("vtt:line", shape, mask))
  return hs


def check(tier, seed, only=None, skip_a=False, skip_b=False):
  hs = all_harnesses(tier)
  if only:
    hs = [h for h in hs if only in h.name]
  for h in hs:
    h.budget_s = 300.0 if tier == "quick" else 1800.0
    h.max_paths = 20000
  cov, findings, undecided, errors = ({}, [], [], [])
  if not skip_a:
    cov, findings, undecided, errors = framework.run_tier_a(PROP, hs)
    from contracts import callee
    cov["assumed_callee_contracts"] = callee.assumed("ClockTime.from_seconds")
  cov["trusted_base"] = ASSUMPTIONS
  cov["explanation"] = ("Proved (all rational timings): the WHOLE srt and vtt writers on document shapes (styled spans incl. an animated colour, two "
                        "paragraphs, nested spans + br, rubies with timed parts; thorough: regions, three symbols) write text that parses under the "
                        "strict grammar (numbering, begin < end, order, no overlap, well-nested known tags, escaping) and whose tags / classes enclose "
                        "exactly the characters with non-default computed style at the significant time each cue begins at.  "
                        "Proved (all rational times below 2^22 s / all region geometries inside the root container): SrtParagraph.to_string and "
                        "VttCue.to_string serialise begin --> end with begin < end, zero-padded in-range fields equal to the times rounded to the "
                        "millisecond, and raise exactly when the interval vanishes at millisecond precision; VttContext.process_p writes "
                        "line = the rounded computed edge of the region for its display alignment (within 0.5, inside 0..100) with the matching "
                        "alignment, and align per textAlign x direction.  Bounded (generated documents x writer configurations): strict "
                        "SubRip / WebVTT grammar of the whole output, numbering, order, escaping, tag nesting, tags == computed styles per "
                        "character, line/align settings against the ISD, writers do not raise; normalize_eol and the blank test exhaustively "
                        "over short strings.  Arbitrary nesting, arbitrary text (escaping of every character) and the cue settings under the other "
                        "configurations are bounded only.")
  if not skip_b:
    from pyvc import loader
    data, errs = framework.run_tier_b("c07", tier, seed)
    errors += errs
    fns = cov.setdefault("functions_under_contract", [])
    for fn in FUNCTIONS_B:
      try:
        loc = loader.locate(fn)
        if loc not in fns:
          fns.append(loc)
      except Exception as e:  # pylint: disable=broad-except
        undecided.append(f"obligation={fn} reason=function-not-found:{e}")
    if data:
      findings += framework.findings_from_rtc(data)
      for k in ("evaluations", "distinct_nontrivial", "rule", "bounded_scope", "per_contract"):
        cov[k] = data.get(k)
      cov["bounded_exhaustive"] = data.get("exhaustive")
      cov["bounded_samples"] = data.get("samples", [])[:6]
  return framework.Outcome(PROP, tier, seed, "other", cov, ASSUMPTIONS, findings, undecided, errors, 0.0)


# ---------------------------------------------------------------------------------------------------------------------
# the whole writers on document shapes with symbolic timing: grammar and tags


def writer_harness(fmt, shape, mask):
  """For ALL rational values of the masked timing attributes: the text the real writer produces parses under the strict grammar
  of specs/cues.py (numbering, begin < end, order, no overlap, well-nested known tags, escaping) and, cue by cue, the tags /
  classes enclose exactly the characters whose computed style (real ISD at the exact significant time of the cue) differs from
  the default -- on every feasible path."""
  from pyvc import modular
  from contracts import callee
  from specs.isd_shapes import SHAPES
  from specs import cues as C
  import ttconv.srt.writer as srt_writer
  import ttconv.vtt.writer as vtt_writer

  def run(ctx):
    import re as _re
    from rtc import cues_common as CC
    vals = {}

    def v(name):
      if name not in mask:
        return None
      if name not in vals:
        x = sym_frac(name)
        assume(x >= 0)
        assume(x < BOUND)
        vals[name] = x
      return vals[name]

    doc = SHAPES[shape](v)
    writer = srt_writer if fmt == "srt" else vtt_writer
    cfg = VTTWriterConfiguration(line_position=True, text_align=True) if fmt == "vtt:line" else None
    with modular.contracts(callee.CLOCKTIME):
      st, out = core.call_real(writer.from_model, doc, cfg, allowed=())
    lits, toks = core.tokens_in(out)
    prove(all(spec in ("02d", "03") for _, spec in toks), "symbolic-values-occur-only-in-zero-padded-time-fields", note=str([s for _, s in toks][:8]))
    concrete = lits[0]
    for (_, spec), lit in zip(toks, lits[1:]):
      concrete += ("000" if spec == "03" else "00") + lit
    cues, problems, _ = CC.read_output(fmt, concrete)
    fld = "(\\d+|⟦sym\\d+⟧)"
    sep = "," if fmt == "srt" else "\\."
    timing = _re.compile(f"{fld}:{fld}:{fld}{sep}{fld} --> {fld}:{fld}:{fld}{sep}{fld}")
    tl = [mm for mm in (timing.match(ln) for ln in out.split("\n")) if mm]
    prove(len(tl) == len(cues), "every-cue-has-its-timing-line")

    def val(x):
      return core.cur().tokens[int(x[4:-1])][0] if x.startswith("⟦") else int(x)

    def ms(g):
      return ((val(g[0]) * 60 + val(g[1])) * 60 + val(g[2])) * 1000 + val(g[3])

    for mm, c in zip(tl, cues):      # the symbolic times instead of the placeholder digits
      c["begin"], c["end"] = ms(mm.groups()[0:4]), ms(mm.groups()[4:8])
    probs = list(problems) + C.sequence_problems(cues, "required", same_interval_ok=fmt == "vtt:line")
    for c in cues:
      probs += c["markup_problems"]
      if fmt == "srt" and any(C._SRT_TIMING.fullmatch(ln) for ln in c["payload"].split(C.NL)):
        probs.append(("timing-line-in-payload", c["payload"]))
    if fmt == "srt" and concrete and not concrete.endswith("\n"):
      probs.append(("no-final-eol", concrete[-20:]))
    prove(not probs, "output-parses-under-the-strict-grammar", note=str(probs)[:300])
    # tags: the computed styles at the exact significant time the cue begins at
    st, sig = core.call_real(ISD.significant_times, doc, allowed=())
    offs = list(sig)
    n_compared = 0
    for c in cues:
      t = None
      for o in offs:
        if C.to_ms(o) == c["begin"]:
          t = o
      if t is None:
        continue          # (that every cue begins at a significant time is C06's obligation)
      st, isd = core.call_real(ISD.from_model, doc, t, allowed=())
      lines = []
      for reg in isd.iter_regions():
        lines += C.line_form(C.region_tokens(CC.isd_tree(reg), "base"))
      lines = C.drop_blank_lines(lines)
      if C.text_of(lines) != c["text"]:
        continue          # (the text is C06's obligation)
      diffs = CC.style_diffs(fmt[:3], lines, C.drop_blank_lines(c["lines"]))
      prove(not diffs, "tags-enclose-exactly-the-characters-with-non-default-computed-style", note=str(diffs)[:300])
      n_compared += 1
      if fmt == "vtt:line":
        regs = [CC.isd_tree(reg) for reg in isd.iter_regions()]
        want = CC.expected_line(regs[0]) if len(regs) == 1 else None
        sett = c["settings"]
        if want is not None:
          lv, al = want
          prove("line" in sett and sett.get("line_value") is not None, "line-setting-present", note=str(sett))
          if sett.get("line_value") is not None:
            prove(abs(sett["line_value"] - lv) <= Fraction(1, 2), "line-setting==computed-region-edge-of-this-interval", note=f"{sett.get('line')} vs {lv} {al}")
            prove(sett.get("line_align") == al or (sett.get("line_align") is None and al == "start"), "line-alignment==display-alignment-of-this-interval",
                  note=f"{sett.get('line')} vs {al}")
        ps = CC.all_paragraphs(regs[0]) if len(regs) == 1 else []
        wa = CC.expected_align(ps) if ps else None
        if wa is not None:
          prove(sett.get("align") in wa, "align-setting==text-alignment-of-the-paragraph", note=f"{sett.get('align')} vs {sorted(x or 'none' for x in wa)}")
    if cues:
      core.cover("styles-of-every-cue-compared", n_compared == len(cues))

  return Harness(f"{fmt}.writer.grammar+tags[{shape}:{'+'.join(mask)}]", run,
                 [f"ttconv.{fmt[:3]}.writer:from_model", "ttconv.isd:ISD.generate_isd_sequence"] +
                 (["ttconv.srt.writer:SrtContext.append_element", "ttconv.srt.writer:SrtContext.add_isd", "ttconv.srt.paragraph:SrtParagraph.to_string"] if fmt == "srt" else
                  ["ttconv.vtt.writer:VttContext.process_inline_element", "ttconv.vtt.writer:VttContext.process_p", "ttconv.vtt.writer:VttContext.add_isd", "ttconv.vtt.cue:VttCue.to_string"]),
                 "replayers.c07:shape", {"fmt": fmt, "shape": shape, "mask": list(mask)},
                 "the whole writer's output is grammatical, its tags reflect the computed styles and (vtt:line) its cue settings the region and "
                 "paragraph of each interval (all rational timings, this shape)")
