"""C12 -- time-code arithmetic is exact, monotone and invertible.   Level: proof.

Functions under contract (real source, re-read and symbolically executed on every run):
  ttconv.time_code: SmpteTimeCode.from_frames / to_frames / add_frames / to_temporal_offset / from_seconds / is_drop_frame,
  _HHMMSSTimeExpression.to_seconds, ClockTime.from_seconds;  ttconv.imsc.attributes: to_time_format.
The oracle is specs/smpte.py (SMPTE ST 12-1 written independently).  Frame counts are unbounded mathematical integers
(0 <= n < 2^40, the magnitude bound is only needed for the exactness of CPython's float operations, which are modelled).
"""
from __future__ import annotations

import math
from fractions import Fraction

import framework
from pyvc import core
from pyvc.core import assume, cover, prove, sym_frac, sym_int
from pyvc.harness import Harness
from specs import smpte

import ttconv.time_code as T
import ttconv.imsc.attributes as A

PROP = "C12"
BOUND = 2 ** 40
M = "ttconv.time_code:"

ASSUMPTIONS = [
  "A-PY: pyvc's model of CPython int/Fraction/float arithmetic (binary64 rounding over-approximated by relative error "
  "2^-53, exact on representable integers, never crossing an integer below 2^53; no overflow)",
  "A-SMT: soundness of z3 5.1.0 / cvc5 1.4.0 `unsat` answers",
  "A-SPEC: specs/smpte.py is my reading of SMPTE ST 12-1 (drop-frame counting exists for 30000/1001 and 60000/1001 only)",
  "magnitude: frame counts and hours are bounded by 2^40 (about 1170 years at 30 fps) so that float operations are exact; "
  "the property asks for 24 h",
  "print/parse: both halves are proved (parse under A-RE: regex groups are symbolic digit strings; print as a sequence of format "
  "tokens); their composition uses A-FMT (format(i,'02') / '03' spell i in decimal), enumerated natively by the bounded tier",
  "float arguments of ClockTime.from_seconds (CPython round(float, 3)) are NOT proved: bounded tier only",
]


def _label(tc):
  return tc.get_hours(), tc.get_minutes(), tc.get_seconds(), tc.get_frames()


def _sym_label(rate, hmax=BOUND):
  h, m, s, f = sym_int("h"), sym_int("m"), sym_int("s"), sym_int("f")
  assume(smpte.valid(h, m, s, f, rate))
  assume(h < hmax)
  return h, m, s, f


def harnesses_for(rate_name: str, rate: Fraction):
  hs = []
  ra = {"rate": rate_name}
  df = smpte.drop(rate) > 0

  def from_frames_valid(ctx):
    n = sym_int("n")
    assume(n >= 0)
    assume(n < BOUND)
    st, tc = core.call_real(T.SmpteTimeCode.from_frames, n, rate)
    h, m, s, f = _label(tc)
    prove(smpte.valid(h, m, s, f, rate), "P1-label-valid", note="0<=f<ceil(rate), 0<=s,m<60, h>=0; skipped DF labels never produced")
    prove(smpte.count(h, m, s, f, rate) == n, "P3-label-is-the-SMPTE-label-of-n")

  hs.append(Harness(f"from_frames.label@{rate_name}", from_frames_valid, [M + "SmpteTimeCode.from_frames"],
                    "replayers.c12:frames_label", ra, "valid labels; count of the produced label is n (hence strictly increasing with n)"))

  def roundtrip(ctx):
    n = sym_int("n")
    assume(n >= 0)
    assume(n < BOUND)
    st, tc = core.call_real(T.SmpteTimeCode.from_frames, n, rate)
    st, back = core.call_real(tc.to_frames)
    prove(back == n, "P2-to_frames(from_frames(n))==n")

  hs.append(Harness(f"roundtrip@{rate_name}", roundtrip,
                    [M + "SmpteTimeCode.from_frames", M + "SmpteTimeCode.to_frames", M + "SmpteTimeCode.is_drop_frame",
                     M + "_HHMMSSTimeExpression.to_seconds"],
                    "replayers.c12:frames_label", ra, "frame count -> time code -> frame count is the identity"))

  def to_frames_spec(ctx):
    h, m, s, f = _sym_label(rate, hmax=2 ** 24)
    tc = T.SmpteTimeCode(h, m, s, f, rate)
    st, got = core.call_real(tc.to_frames)
    prove(got == smpte.count(h, m, s, f, rate), "P3-to_frames==SMPTE-count")
    st, off = core.call_real(tc.to_temporal_offset)
    prove(off == Fraction(1) * smpte.count(h, m, s, f, rate) / rate, "P5-offset==count/rate-exactly")
    prove(core.vc_isinstance(off, Fraction), "P5-offset-is-a-Fraction")

  hs.append(Harness(f"to_frames.spec@{rate_name}", to_frames_spec,
                    [M + "SmpteTimeCode.to_frames", M + "SmpteTimeCode.to_temporal_offset"],
                    "replayers.c12:label_count", ra, "to_frames equals the SMPTE count on every valid label; offset = frames/rate exactly"))

  def monotone(ctx):
    a = _sym_label(rate)
    b = tuple(sym_int(x + "2") for x in "hmsf")
    assume(smpte.valid(*b, rate))
    assume(b[0] < BOUND)
    assume(smpte.lex_less(a, b))
    prove(smpte.count(*a, rate) < smpte.count(*b, rate), "P3-lemma-count-strictly-monotone-in-label-order", kind="lemma")

  hs.append(Harness(f"lemma.monotone@{rate_name}", monotone, [], None, ra,
                    "lemma over the oracle: count is strictly monotone (so injective) on valid labels => successive counts give "
                    "strictly increasing labels, and equal counts give equal labels"))

  def add_frames(ctx):
    h, m, s, f = _sym_label(rate, hmax=2 ** 30)
    k = sym_int("k")
    before = smpte.count(h, m, s, f, rate)
    assume(before + k >= 0)
    assume(k > -BOUND // 4)
    assume(k < BOUND // 4)
    tc = T.SmpteTimeCode(h, m, s, f, rate)
    core.call_real(tc.add_frames, k)
    h2, m2, s2, f2 = _label(tc)
    prove(smpte.valid(h2, m2, s2, f2, rate), "P4-label-after-add-valid")
    prove(smpte.count(h2, m2, s2, f2, rate) == before + k, "P4-count'==count+k",
          note="with injectivity of count (lemma.monotone): add_frames(n) == n x add_frames(1), by induction on n")

  hs.append(Harness(f"add_frames@{rate_name}", add_frames,
                    [M + "SmpteTimeCode.add_frames", M + "SmpteTimeCode.to_frames", M + "SmpteTimeCode.from_frames"],
                    "replayers.c12:add_frames", ra, "adding k frames adds k to the count (=> n single additions equal one addition of n)"))

  def from_seconds_boundary(ctx):
    k = sym_int("k")
    assume(k >= 0)
    assume(k < BOUND)
    t = Fraction(1) * k / rate
    st, tc = core.call_real(T.SmpteTimeCode.from_seconds, t, rate)
    h, m, s, f = _label(tc)
    prove(smpte.count(h, m, s, f, rate) == k, "P6-frame-boundary-converts-to-that-frame")

  hs.append(Harness(f"from_seconds.boundary@{rate_name}", from_seconds_boundary,
                    [M + "SmpteTimeCode.from_seconds", M + "SmpteTimeCode.from_frames"],
                    "replayers.c12:from_seconds_boundary", ra, "a time exactly on a frame boundary converts to that frame"))

  def from_seconds_any(ctx):
    t = sym_frac("t")
    assume(t >= 0)
    assume(t < BOUND // 64)
    st, tc = core.call_real(T.SmpteTimeCode.from_seconds, t, rate)
    h, m, s, f = _label(tc)
    prove(smpte.count(h, m, s, f, rate) == math.floor(t * rate), "P6-from_seconds==floor(t*rate)")

  hs.append(Harness(f"from_seconds.rational@{rate_name}", from_seconds_any,
                    [M + "SmpteTimeCode.from_seconds"], "replayers.c12:from_seconds_any", ra,
                    "any rational time converts to the frame that contains it"))

  def time_format_frames(ctx):
    t = sym_frac("t")
    assume(t >= 0)
    wctx = A.TemporalAttributeWritingContext(frame_rate=rate, time_expression_syntax=A.TimeExpressionSyntaxEnum.frames)
    st, out = core.call_real(A.to_time_format, wctx, t)
    lits, toks = core.tokens_in(out)
    prove(lits == ["", "f"] and len(toks) == 1 and toks[0][1] == "", "P9-frames-syntax-shape")
    prove(toks[0][0] == math.ceil(t * rate), "P9-frames-syntax==ceil(t*rate)")

  hs.append(Harness(f"to_time_format.frames@{rate_name}", time_format_frames, ["ttconv.imsc.attributes:to_time_format"],
                    "replayers.c12:time_format_frames", ra, "frames syntax writes ceil(t*rate) exactly"))

  def time_format_clock(ctx):
    """clock-time syntax chosen while a frame rate is ALSO configured: the frame rate must not influence the millisecond value"""
    t = sym_frac("t")
    assume(t >= 0)
    assume(t < BOUND)
    wctx = A.TemporalAttributeWritingContext(frame_rate=rate, time_expression_syntax=A.TimeExpressionSyntaxEnum.clock_time)
    st, out = core.call_real(A.to_time_format, wctx, t)
    lits, toks = core.tokens_in(out)
    prove(lits == ["", ":", ":", ".", ""] and len(toks) == 4, "P7-clock-time-shape(hh:mm:ss.mmm)", note=repr(lits))
    if len(toks) == 4:
      total = ((toks[0][0] * 60 + toks[1][0]) * 60 + toks[2][0]) * 1000 + toks[3][0]
      prove(total == round(t * 1000), "P7-clock-time-with-a-frame-rate-configured==nearest-millisecond(ties-to-even)")

  hs.append(Harness(f"to_time_format.clock_time@{rate_name}", time_format_clock, ["ttconv.imsc.attributes:to_time_format", M + "ClockTime.from_seconds"],
                    "replayers.c12:time_format_clock", ra, "clock-time syntax writes the nearest millisecond whatever frame rate is configured"))
  return hs


def clock_harnesses():
  hs = []

  def total_ms(c):
    return ((c.get_hours() * 60 + c.get_minutes()) * 60 + c.get_seconds()) * 1000 + c.get_milliseconds()

  def clock_fields(ctx):
    t = sym_frac("t")
    assume(t >= 0)
    st, c = core.call_real(T.ClockTime.from_seconds, t)
    prove((c.get_hours() >= 0) & (c.get_minutes() >= 0) & (c.get_minutes() < 60) & (c.get_seconds() >= 0) & (c.get_seconds() < 60)
          & (c.get_milliseconds() >= 0) & (c.get_milliseconds() < 1000), "P7-fields-in-range")
    tot = total_ms(c)
    prove((Fraction(1) * tot / 1000 - t <= Fraction(1, 2000)) & (t - Fraction(1) * tot / 1000 <= Fraction(1, 2000)),
          "P7-nearest-millisecond(error<=0.5ms)")

  hs.append(Harness("ClockTime.from_seconds.fields", clock_fields, [M + "ClockTime.from_seconds"], "replayers.c12:clock_time", {},
                    "millisecond clock times: fields in range, error at most 0.5 ms"))

  def clock_total(ctx):
    t = sym_frac("t")
    assume(t >= 0)
    st, c = core.call_real(T.ClockTime.from_seconds, t)
    prove(total_ms(c) == round(t * 1000), "P7-total-ms==round-half-even(1000t)")

  hs.append(Harness("ClockTime.from_seconds.total", clock_total, [M + "ClockTime.from_seconds"], "replayers.c12:clock_time", {},
                    "the printed clock time denotes round-half-even(1000 t) milliseconds"))

  def round_monotone(ctx):
    x = sym_frac("t")
    y = sym_frac("t2")
    assume(x <= y)
    prove(round(x) <= round(y), "P7-lemma-round-half-even-is-monotone", kind="lemma")

  hs.append(Harness("lemma.round-monotone", round_monotone, [], None, {},
                    "lemma: rounding to the nearest integer is monotone; with ClockTime.from_seconds.total this gives: millisecond "
                    "clock times are non-decreasing in their argument"))

  def neg(ctx):
    t = sym_frac("t")
    assume(t < 0)
    st, r = core.call_real(T.ClockTime.from_seconds, t, allowed=(ValueError,))
    prove(st == "raise", "P7-negative-rejected")

  hs.append(Harness("ClockTime.from_seconds.negative", neg, [M + "ClockTime.from_seconds"], None, {}, "negative times are rejected"))
  return hs


def parse_print_harnesses():
  """P8: print and parse.  parse(): the real SmpteTimeCode.parse / ClockTime.parse with the `re` module of time_code.py stubbed
  (A-RE: symbolic digit groups; which of the two SMPTE patterns matches the subject is part of the case).  print: the real
  __str__ with symbolic fields; the result is a sequence of format tokens ({field:02}) and literal separators.  With A-FMT
  (format(i, '02') is the two-digit decimal of i for 0 <= i < 100, '03' likewise for 0 <= i < 1000; enumerated natively by the
  bounded tier) the two halves compose to parse(str(tc)) == tc for hours below 100."""
  from pyvc import restub
  hs = []
  NDF, DF = T.SmpteTimeCode.SMPTE_TIME_CODE_NDF_PATTERN, T.SmpteTimeCode.SMPTE_TIME_CODE_DF_PATTERN
  PH = "@@TC@@"

  def smpte_parse(kind, rate_name):
    rate = smpte.RATES[rate_name]

    def run(ctx):
      import re as real_re
      pat = NDF if kind == "ndf" else DF
      groups, info = restub.symbolic_groups(real_re.compile(pat))
      table = {NDF: {PH: groups if kind == "ndf" else None}, DF: {PH: groups if kind == "df" else None}}
      saved = T.__dict__["re"]
      T.__dict__["re"] = restub.StubReModule(table)
      try:
        st, tc = core.call_real(T.SmpteTimeCode.parse, PH, rate, allowed=())
      finally:
        T.__dict__["re"] = saved
      pre = "ndf_" if kind == "ndf" else "df_"
      prove((tc.get_hours() == groups[pre + "h"].value) & (tc.get_minutes() == groups[pre + "m"].value) &
            (tc.get_seconds() == groups[pre + "s"].value) & (tc.get_frames() == groups[pre + "f"].value), "P8-parse-fields==printed-digits")
      if kind == "ndf":
        prove(tc.get_frame_rate() == rate, "P8-colon-separated-keeps-the-base-rate")
      else:
        want = rate if rate.denominator == 1001 else rate * Fraction(1000, 1001)
        prove(tc.get_frame_rate() == want, "P8-drop-frame-syntax-selects-the-1000/1001-rate")
      prove(all(v == (2, 2) for v in info.values()), "P8-two-digit-fields", note=str(info))
    return Harness(f"SmpteTimeCode.parse[{kind}]@{rate_name}", run, [M + "SmpteTimeCode.parse"], None, {},
                   "parsing a printed SMPTE time code returns its fields; `:` keeps the rate, other separators select the 1000/1001 rate")

  for rn in ("30", "25", "30000/1001", "24000/1001"):
    hs.append(smpte_parse("ndf", rn))
    hs.append(smpte_parse("df", rn))

  def smpte_print(rate_name):
    rate = smpte.RATES[rate_name]

    def run(ctx):
      h, m, s, f = _sym_label(rate, hmax=100)
      text = str(T.SmpteTimeCode(h, m, s, f, rate))
      lits, toks = core.tokens_in(text)
      sep = ";" if smpte.drop(rate) else ":"
      prove(lits == ["", ":", ":", sep, ""], "P8-print-separators", note=repr(lits))
      prove(len(toks) == 4 and all(t[1] in ("02", "02d") for t in toks), "P8-print-two-digit-fields", note=str([t[1] for t in toks]))
      prove((toks[0][0] == h) & (toks[1][0] == m) & (toks[2][0] == s) & (toks[3][0] == f), "P8-print-fields-in-order")
    return Harness(f"SmpteTimeCode.__str__@{rate_name}", run, [M + "SmpteTimeCode.__str__"], None, {},
                   "a time code prints hh:mm:ss:ff (;ff for drop-frame rates) with two-digit fields")

  for rn in smpte.RATES:
    hs.append(smpte_print(rn))

  def clock_parse_print(ctx):
    import re as real_re
    groups, info = restub.symbolic_groups(real_re.compile(T.ClockTime.TIME_CODE_PATTERN))
    saved = T.__dict__["re"]
    T.__dict__["re"] = restub.StubReModule({T.ClockTime.TIME_CODE_PATTERN: {PH: groups}})
    try:
      st, c = core.call_real(T.ClockTime.parse, PH, allowed=())
    finally:
      T.__dict__["re"] = saved
    prove((c.get_hours() == groups["h"].value) & (c.get_minutes() == groups["m"].value) & (c.get_seconds() == groups["s"].value) &
          (c.get_milliseconds() == groups["ms"].value), "P8-clock-parse-fields==printed-digits")
    text = str(c)
    lits, toks = core.tokens_in(text)
    prove(lits == ["", ":", ":", ".", ""] and [t[1] for t in toks] == ["02d", "02d", "02d", "03"], "P8-clock-print-shape", note=repr((lits, [t[1] for t in toks])))
    prove((toks[0][0] == c.get_hours()) & (toks[3][0] == c.get_milliseconds()), "P8-clock-print-fields")

  hs.append(Harness("ClockTime.parse+__str__", clock_parse_print, [M + "ClockTime.parse", M + "ClockTime.__str__"], None, {},
                    "clock times parse to their printed fields and print hh:mm:ss.mmm"))
  return hs


def all_harnesses(tier):
  hs = parse_print_harnesses()
  for name, rate in smpte.RATES.items():
    hs += harnesses_for(name, rate)
  hs += clock_harnesses()
  return hs


def check(tier, seed, only=None, skip_a=False, skip_b=False):
  hs = all_harnesses(tier)
  if only:
    hs = [h for h in hs if only in h.name]
  for h in hs:
    h.budget_s = 90.0 if tier == "quick" else 600.0
  cov, findings, undecided, errors = ({}, [], [], [])
  if not skip_a:
    cov, findings, undecided, errors = framework.run_tier_a(PROP, hs)
  cov["trusted_base"] = ASSUMPTIONS
  cov["explanation"] = ("Tier A (proved for all frame counts / labels / rational times, 8 rates): P1 label validity, P2 round trip, "
                        "P3 SMPTE count and monotonicity, P4 add_frames, P5 exact offset, P6 frame-boundary exactness, P7 clock time "
                        "(rational arguments), P9 frames syntax.  Tier B (bounded, not counted as proved): print/parse, float arguments.")
  if not skip_b:
    data, errs = framework.run_tier_b("c12", tier, seed)
    errors += errs
    if data:
      findings += framework.findings_from_rtc(data)
      for k in ("evaluations", "distinct_nontrivial", "rule", "bounded_scope", "exhaustive"):
        cov["bounded_" + k if k in ("exhaustive",) else k] = data.get(k)
      cov["bounded_samples"] = data.get("samples", [])[:8]
  return framework.Outcome(PROP, tier, seed, "proof", cov, ASSUMPTIONS, findings, undecided, errors, 0.0)
