"""C05 -- writing a document as IMSC and reading it back presents identically.   Level: other (proof tier for the time kernels).

Proof tier (pyvc, real source of ttconv.imsc.attributes.to_time_format, ttconv.time_code.ClockTime.from_seconds,
SmpteTimeCode.from_seconds / from_frames, symbolically executed): the inverse lemmas of the three time-expression syntaxes
for ALL rational times, per frame rate:
  * frames: `to_time_format` writes "<N>f"; re-read as N/fps it moves by less than one frame (the code uses ceil, so N/fps is in
    [t, t + 1/fps): that stronger fact is C12's P9), N == k exactly for t = k/fps, and N is monotone in t (two symbolic times);
  * clock_time (and the default without frame rate): the written HH:MM:SS.mmm denotes exactly k ms for t = k/1000, moves any
    other time by less than 1 ms, fields in range (a well-formed clock time), order kept (two symbolic times);
  * clock_time_with_frames (integer rates): the written HH:MM:SS:FF denotes a frame count c with |c/fps - t| < 1/fps,
    c == k exactly for t = k/fps, ff < fps; order kept (two symbolic times) in the thorough tier only (solver time), the quick
    tier checks that clause on the time grid of the bounded tier.
Only what the statement asks is demanded (any rounding that is exact on representable times, moves by less than one unit and is
monotone passes).
Reading the text back (regular expressions, `Fraction(str)`) is not symbolic: the written text is decomposed into its
formatted numbers (pyvc tokens) and interpreted by the TTML rule of specs/imsc_rt.py; the reader's own
`parse_time_expression` is compared with that rule in the bounded tier on a grid of times.

Bounded tier: rtc/c05.py (colour channels exhaustively, time grid, focused documents, random documents).

Whole round trip on document shapes (roundtrip_harness): for ALL rational timing values below 2^18 s the real IMSC writer produces an
element tree whose time attributes are formatted symbolic numbers; the real IMSC reader reads that SAME tree back in the same symbolic
run -- its compiled time-expression patterns are wrapped by pyvc.restub.TokenRegex (the real pattern decides on the text with every
formatted value replaced by as many zeros as its field is wide; groups keep the formatted values) and int() / Fraction() of such a group is
the value it spells (core.number_from_text); on every feasible path the document read back has, in order, every element that carries text
or a line break and is shown for longer than one unit, nothing that the source does not present, and every begin / end offset exact when
representable in the syntax and otherwise less than one unit away (thorough: order kept, pairwise).  clock_time, frames, and (thorough)
clock_time_with_frames; shapes: two paragraphs, nested spans + br, rubies with timed parts, br with <set>.  ClockTime.from_seconds through
its contract (contracts/callee.py), discharged in the same run.  This tier found that the reader dropped a zero-duration ruby part and
with it every child of the ruby (repaired, c7b47e4).
"""
from __future__ import annotations

import math

import z3
from fractions import Fraction

import framework
from pyvc import core
from pyvc.core import assume, prove, sym_frac, sym_int
from pyvc.harness import Harness
from specs import imsc_rt as S

import ttconv.imsc.attributes as A

PROP = "C05"
BOUND = 2 ** 36
TF = "ttconv.imsc.attributes:to_time_format"
TC = "ttconv.time_code:"

RATES = {"24": Fraction(24), "25": Fraction(25), "30": Fraction(30), "50": Fraction(50), "60": Fraction(60),
         "24000/1001": Fraction(24000, 1001), "30000/1001": Fraction(30000, 1001)}
INT_RATES = ["24", "25", "30", "50", "60"]

ASSUMPTIONS = [
  "reading of `times move by less than one unit`: the times are the begin / end values the model holds, i.e. offsets from the parent's "
  "begin; each is bounded, their sums are not: the absolute instant of a nested element may move by up to one unit per nesting level "
  "(frames syntax rounds every offset up: p begin 0.75 f and span end 1.25 f at 30 fps come back as 1 f + 2 f, a whole frame later "
  "than 2.0 f).  An absolute-time version of the round-trip contract refutes exactly there; it is not claimed as a violation because the "
  "statement bounds each time, and `same snapshot at every time` can only be meant up to the written precision",
  "round-trip proof: TokenRegex assumes a formatted value fills exactly its field (two-digit hours: times below 2^18 s; a wider value is "
  "an unexplored path, reported as undecided if reachable) and that the reader's patterns treat all digits alike",
  "A-PY / A-SMT: pyvc's model of CPython int / Fraction arithmetic and f-string formatting of integers (a formatted number "
  "denotes its value); soundness of z3 / cvc5 `unsat` answers",
  "proof tier: times are rational, 0 <= t < 2^36 s; the text -> value direction uses the TTML rule (specs/imsc_rt.parse_written), "
  "the reader's regular-expression parser is compared with that rule in the bounded tier only",
  "the writer's syntax per configuration is the README's: time_format given -> that syntax; only fps -> frames; neither -> clock_time; "
  "clock_time_with_frames is only defined for integer frame rates (the writer refuses other rates)",
  "presentation = ISD.from_model of both documents at every interval boundary and midpoint of both; ids of content elements are not "
  "presentation (the reader does not keep xml:id); the generic font family `default` equals monospaceSerif (IMSC); adjacent text "
  "nodes equal one run of text; a ruby base left without content may be kept or pruned",
  "numeric tolerance = written precision: lengths after style resolution 2e-3 absolute + 2e-5 relative (%g, 6 digits, sums of a few "
  "terms of magnitude <= 100), other numbers 1e-5 relative; active area 1e-5 relative",
  "non-representable times: the re-read document is compared with the original whose times are replaced by the written values "
  "(each written value is separately required to be exact / within one unit / order preserving)",
  "element xml:lang: documents carry the resolved language on every element (as the reader produces it); a language differing "
  "from the parent's is a variation the writer must keep",
  "not generated: negative times; rubies whose parts have an empty interval or no text (snapshot undefined: known C01 finding); "
  "style values outside the model's validate(); Shear beyond +-100% (clamped by the reader, same presentation)",
  "random documents do not contain features that fail on their own in the focused tier (those are reported there, one key each)",
]


def _wctx(syntax, rate):
  return A.TemporalAttributeWritingContext(frame_rate=rate, time_expression_syntax=A.TimeExpressionSyntaxEnum[syntax])


def _frames_of(out):
  lits, toks = core.tokens_in(out)
  prove(lits == ["", "f"] and len(toks) == 1 and toks[0][1] == "", "written-text-is-<N>f")
  return toks[0][0]


def _clock_ms(out):
  """HH:MM:SS.mmm -> total milliseconds (TTML clock time); proves the shape and the field ranges"""
  lits, toks = core.tokens_in(out)
  prove(lits == ["", ":", ":", ".", ""] and [t[1] for t in toks] == ["02d", "02d", "02d", "03"], "written-text-is-HH:MM:SS.mmm",
        note=f"{lits} {[t[1] for t in toks]}")
  h, m, s, ms = (t[0] for t in toks)
  prove((h >= 0) & (m >= 0) & (m < 60) & (s >= 0) & (s < 60) & (ms >= 0) & (ms < 1000), "clock-fields-in-range")
  return ((h * 60 + m) * 60 + s) * 1000 + ms


def _cwf_frames(out, rate):
  """HH:MM:SS:FF -> frame count (integer rate): proves the shape and the field ranges"""
  lits, toks = core.tokens_in(out)
  prove(lits == ["", ":", ":", ":", ""] and [t[1] for t in toks] == ["02", "02", "02", "02"], "written-text-is-HH:MM:SS:FF",
        note=f"{lits} {[t[1] for t in toks]}")
  h, m, s, f = (t[0] for t in toks)
  prove((h >= 0) & (m >= 0) & (m < 60) & (s >= 0) & (s < 60) & (f >= 0) & (f < rate), "smpte-fields-in-range(ff<fps)")
  return ((h * 60 + m) * 60 + s) * int(rate) + f


def _t(name="t"):
  t = sym_frac(name)
  assume(t >= 0)
  assume(t < BOUND)
  return t


def harnesses(tier="quick"):
  hs = []
  for name, rate in RATES.items():
    for syntax_name, fmt in (("frames", S.FRAMES),):
      ra = {"syntax": fmt, "rate": name}

      def inv(ctx, rate=rate, fmt=fmt):
        t = _t()
        st, out = core.call_real(A.to_time_format, _wctx(fmt, rate), t)
        n = _frames_of(out)
        d = Fraction(1) * n / rate - t
        prove((d < 1 / rate) & (-d < 1 / rate), "frames-re-read-moves-by-less-than-one-frame")

      hs.append(Harness(f"frames.inverse@{name}", inv, [TF], "replayers.c05:inverse_lemma", ra,
                        "frames syntax: N frames re-read as N/fps: |N/fps - t| < 1/fps"))

      def exact(ctx, rate=rate, fmt=fmt):
        k = sym_int("k")
        assume(k >= 0)
        assume(k < BOUND)
        st, out = core.call_real(A.to_time_format, _wctx(fmt, rate), Fraction(1) * k / rate)
        prove(_frames_of(out) == k, "frames-whole-frames-exact")

      hs.append(Harness(f"frames.exact@{name}", exact, [TF], "replayers.c05:inverse_lemma", ra, "whole frames are reproduced exactly"))

      def mono(ctx, rate=rate, fmt=fmt):
        t1, t2 = _t("t"), _t("t2")
        assume(t1 <= t2)
        st, o1 = core.call_real(A.to_time_format, _wctx(fmt, rate), t1)
        st, o2 = core.call_real(A.to_time_format, _wctx(fmt, rate), t2)
        prove(_frames_of(o1) <= _frames_of(o2), "frames-order-kept")

      hs.append(Harness(f"frames.monotone@{name}", mono, [TF], "replayers.c05:inverse_lemma", ra, "frames syntax never changes order"))

  for name in INT_RATES:
    rate = RATES[name]
    ra = {"syntax": S.CWF, "rate": name}
    fns = [TF, TC + "SmpteTimeCode.from_seconds", TC + "SmpteTimeCode.from_frames", TC + "SmpteTimeCode.__str__"]

    def inv(ctx, rate=rate):
      t = _t()
      st, out = core.call_real(A.to_time_format, _wctx(S.CWF, rate), t)
      c = _cwf_frames(out, rate)
      d = Fraction(1) * c / rate - t
      prove((d < 1 / rate) & (-d < 1 / rate), "cwf-re-read-moves-by-less-than-one-frame")

    hs.append(Harness(f"cwf.inverse@{name}", inv, fns, "replayers.c05:inverse_lemma", ra,
                      "HH:MM:SS:FF re-read as a frame count c: |c/fps - t| < 1/fps, ff < fps"))

    def exact(ctx, rate=rate):
      k = sym_int("k")
      assume(k >= 0)
      assume(k < BOUND)
      st, out = core.call_real(A.to_time_format, _wctx(S.CWF, rate), Fraction(1) * k / rate)
      prove(_cwf_frames(out, rate) == k, "cwf-whole-frames-exact")

    hs.append(Harness(f"cwf.exact@{name}", exact, fns, "replayers.c05:inverse_lemma", ra, "whole frames are reproduced exactly"))

    def mono(ctx, rate=rate):
      t1, t2 = _t("t"), _t("t2")
      assume(t1 <= t2)
      st, o1 = core.call_real(A.to_time_format, _wctx(S.CWF, rate), t1)
      st, o2 = core.call_real(A.to_time_format, _wctx(S.CWF, rate), t2)
      prove(_cwf_frames(o1, rate) <= _cwf_frames(o2, rate), "cwf-order-kept")

    if tier != "quick":     # 10-50 s of solver time per rate: the quick tier checks this clause on the time grid of the bounded tier
      hs.append(Harness(f"cwf.monotone@{name}", mono, fns, "replayers.c05:inverse_lemma", ra, "HH:MM:SS:FF never changes order"))

  # clock time: the configured syntax, and the fall-back of to_time_format when no frame rate is known
  fns = [TF, TC + "ClockTime.from_seconds", TC + "ClockTime.__str__"]
  for label, wctx in (("clock", lambda: _wctx(S.CLOCK, None)), ("clock+rate", lambda: _wctx(S.CLOCK, Fraction(30000, 1001))),
                      ("frames-without-rate", lambda: _wctx(S.FRAMES, None))):
    ra = {"syntax": S.CLOCK, "rate": None}

    def exact(ctx, wctx=wctx):
      k = sym_int("k")
      assume(k >= 0)
      assume(k < BOUND * 1000)
      st, out = core.call_real(A.to_time_format, wctx(), Fraction(1) * k / 1000)
      prove(_clock_ms(out) == k, "clock-millisecond-multiples-exact")

    hs.append(Harness(f"{label}.exact", exact, fns, "replayers.c05:inverse_lemma", ra, "millisecond multiples are reproduced exactly"))

    def inv(ctx, wctx=wctx):
      t = _t()
      st, out = core.call_real(A.to_time_format, wctx(), t)
      ms = _clock_ms(out)
      d = Fraction(1) * ms / 1000 - t
      prove((d < Fraction(1, 1000)) & (-d < Fraction(1, 1000)), "clock-moves-by-less-than-one-millisecond")

    hs.append(Harness(f"{label}.inverse", inv, fns, "replayers.c05:inverse_lemma", ra, "other times move by less than 1 ms"))

    def mono(ctx, wctx=wctx):
      t1, t2 = _t("t"), _t("t2")
      assume(t1 <= t2)
      st, o1 = core.call_real(A.to_time_format, wctx(), t1)
      st, o2 = core.call_real(A.to_time_format, wctx(), t2)
      prove(_clock_ms(o1) <= _clock_ms(o2), "clock-order-kept")

    hs.append(Harness(f"{label}.monotone", mono, fns, "replayers.c05:inverse_lemma", ra, "clock time never changes order"))

  return hs


ROUNDTRIP_QUICK = [("twop", ("b1", "e1"), "clock_time", None), ("twop", ("b1", "e1"), "frames", "25"), ("twop", ("e1", "b2"), "clock_time", None),
                   ("nested", ("s1b", "s3e"), "clock_time", None), ("nested", ("pb", "s1e"), "frames", "30"), ("rubyparts", ("rtb", "rte"), "clock_time", None),
                   ("brset", ("pb", "pe"), "frames", "24")]
ROUNDTRIP_THOROUGH = [("twop", ("b1", "e1"), "clock_time_with_frames", "30"), ("twop", ("b1", "e1", "e2"), "clock_time", None),
                      ("nested", ("s1b", "s3b", "s3e"), "frames", "25"), ("regions", ("r1b", "r1e"), "clock_time", None)]


def check(tier, seed, only=None, skip_a=False, skip_b=False):
  from contracts.c12 import clock_harnesses
  hs = harnesses(tier)
  hs += [h for h in clock_harnesses() if h.name.startswith("ClockTime.from_seconds")]      # discharge the callee contract used by the round trips
  # the order clauses (minutes of solver time each) only in the thorough tier and only on the two-paragraph shape
  hs += [roundtrip_harness(*a, order=(tier != "quick" and a[0] == "twop" and len(a[1]) == 2 and a[2] != "clock_time_with_frames"))
         for a in ROUNDTRIP_QUICK + (ROUNDTRIP_THOROUGH if tier != "quick" else [])]
  if only:
    hs = [h for h in hs if only in h.name]
  for h in hs:
    h.budget_s = 300.0 if tier == "quick" else 1800.0
    h.max_paths = 20000
  cov, findings, undecided, errors = ({}, [], [], [])
  if not skip_a:
    cov, findings, undecided, errors = framework.run_tier_a(PROP, hs)
  cov["trusted_base"] = ASSUMPTIONS
  from contracts import callee
  cov["assumed_callee_contracts"] = callee.assumed("ClockTime.from_seconds")
  cov["explanation"] = ("Tier A (proved for all rational times, per frame rate): the inverse lemmas of the three time-expression syntaxes "
                        "(exact on representable times, < 1 unit otherwise, order kept, well-formed fields); the WHOLE write -> read round trip "
                        "on document shapes with symbolic timing (real writer, real reader on the same element tree, time attributes as formatted "
                        "symbolic numbers): every element with content comes back in order, nothing is invented, every time offset exact when "
                        "representable and otherwise within one unit. Tier B (bounded, not counted as "
                        "proved): colour channels exhaustively, time grid against the reader's parser, 1500+ focused documents (one feature "
                        "each: every style property x value form x placement, element kinds, text, lang / space, parameters, timing x 28 "
                        "configurations), random documents x rotating configurations.")
  if not skip_b:
    data, errs = framework.run_tier_b("c05", tier, seed)
    errors += errs
    if data:
      findings += framework.findings_from_rtc(data)
      for k in ("evaluations", "distinct_nontrivial", "rule", "bounded_scope", "exhaustive", "per_contract"):
        cov["bounded_" + k if k == "exhaustive" else k] = data.get(k)
      cov["bounded_samples"] = data.get("samples", [])[:8]
  return framework.Outcome(PROP, tier, seed, "other", cov, ASSUMPTIONS, findings, undecided, errors, 0.0)


# ---------------------------------------------------------------------------------------------------------------------
# the whole round trip on document shapes with symbolic timing


def _tm(c):
  return c.term if hasattr(c, "term") else z3.BoolVal(bool(c))


def _both(a, b):
  return core.SymBool(z3.And(_tm(a), _tm(b)))


def roundtrip_harness(shape, mask, syntax, rate=None, order=True):
  """For ALL rational values of the masked timing attributes (below 2^18 s): the real IMSC writer produces an element tree whose time
  attributes are formatted symbolic numbers (format tokens); the real IMSC reader reads that same tree back (its compiled time-expression
  patterns wrapped by pyvc.restub.TokenRegex, numbers read by core.number_from_text); the document read back has the same structure,
  and every begin / end is the written one: exact for times representable in the syntax, otherwise moved by less than one unit (1 ms /
  one frame), never reordered against another time of the document."""
  import ttconv.imsc.utils as imsc_utils
  import ttconv.imsc.reader as imsc_reader
  import ttconv.imsc.writer as imsc_writer
  import ttconv.model as m
  from ttconv.imsc.config import IMSCWriterConfiguration, TimeExpressionSyntaxEnum
  from pyvc import restub
  from specs.isd_shapes import SHAPES

  unit = Fraction(1, 1000) if rate is None else 1 / RATES[rate]
  NAMES = ["_CLOCK_TIME_FRACTION_RE", "_CLOCK_TIME_FRAMES_RE", "_OFFSET_FRAME_RE", "_OFFSET_TICK_RE", "_OFFSET_MS_RE", "_OFFSET_S_RE", "_OFFSET_H_RE", "_OFFSET_M_RE"]

  def run(ctx):
    vals = {}

    def v(name):
      if name not in mask:
        return None
      if name not in vals:
        x = sym_frac(name)
        assume(x >= 0)
        assume(x < 2 ** 18)
        vals[name] = x
      return vals[name]

    doc = SHAPES[shape](v)
    cfg = IMSCWriterConfiguration(time_format=getattr(TimeExpressionSyntaxEnum, syntax), fps=RATES[rate] if rate else None)
    from pyvc import modular
    from contracts import callee
    with modular.contracts(callee.CLOCKTIME):
      st, tree = core.call_real(imsc_writer.from_model, doc, cfg, allowed=())
    saved = {n: imsc_utils.__dict__[n] for n in NAMES}
    for n in NAMES:
      imsc_utils.__dict__[n] = restub.TokenRegex(getattr(saved[n], "_real", saved[n]))
    try:
      st, doc2 = core.call_real(imsc_reader.to_model, tree, allowed=())
    finally:
      for n in NAMES:
        imsc_utils.__dict__[n] = saved[n]
    prove(doc2 is not None, "the-written-document-is-read")
    from specs import isd as ISDS

    def flat(d):
      """[(kind, begin offset, end offset, absolute begin, absolute end | None, text directly inside, line breaks directly inside)] in
      document order (the reader does not keep xml:id: elements are paired by order, kind and direct content)"""
      out = []

      def walk(e, piv):
        if isinstance(e, (m.Text, m.Br)):
          return
        iv = ISDS.interval(e.get_begin(), e.get_end(), piv[0], piv[1])
        out.append((type(e).__name__, e.get_begin(), e.get_end(), iv[0], iv[1], "".join(c.get_text() for c in e if isinstance(c, m.Text)),
                    sum(isinstance(c, m.Br) for c in e)))
        for c in e:
          walk(c, iv)
      if d.get_body() is not None:
        walk(d.get_body(), (Fraction(0), None))
      return out

    src, back = flat(doc), flat(doc2)
    # demanded to come back: elements that carry text or a line break themselves and are presented for longer than one unit (a shorter
    # interval may vanish in the written syntax; containers come back with what they contain)
    mandatory = [bool((text or nbr) and (ae is None or (ae - ab > unit))) for (_, _, _, ab, ae, text, nbr) in src]
    presented = [x for x in back if x[4] is None or bool(x[3] < x[4])]
    kept = []
    i = 0
    for (kind1, b1, e1, ab1, ae1, text1, nbr1) in presented:
      while i < len(src) and (src[i][0], src[i][5], src[i][6]) != (kind1, text1, nbr1) and not mandatory[i]:
        i += 1
      ok = i < len(src) and (src[i][0], src[i][5], src[i][6]) == (kind1, text1, nbr1)
      prove(ok, f"element-read-back-is-the-next-element-of-the-source[{kind1}:{text1!r}]",
            note=f"read back {(kind1, text1, nbr1)}, next in the source {(src[i][0], src[i][5], src[i][6]) if i < len(src) else None}")
      if not ok:
        break
      kind, b0, e0, ab0, ae0, text, nbr = src[i]
      i += 1
      tag = f"{kind}:{text}"
      if ae0 is not None and order:
        # (a consequence of `order kept`; like the pairwise order clauses below it needs the monotonicity of two roundings at once,
        # which costs the solvers minutes: thorough tier only -- the kernel harnesses prove `order kept` per syntax in every tier)
        prove(ab0 < ae0, f"element-read-back-is-presented-in-the-source[{tag}]")
      # the times of the element, as the model holds them (offsets from the parent's begin)
      for t0, t1, what in ((b0, b1, "begin"), (e0, e1, "end")):
        if t0 is None:
          # an absent begin is 0; an absent end may come back as the implicit end of the container (checked through the children)
          if what == "begin":
            prove(t1 is None or bool(t1 == 0), f"absent-begin-stays-zero[{tag}]")
          continue
        if t1 is None and what == "begin":
          t1 = Fraction(0)
        prove(t1 is not None, f"{what}-is-read-back[{tag}]")
        if t1 is None:
          continue
        prove(_both(t1 - t0 < unit, t0 - t1 < unit), f"{what}-moves-by-less-than-one-unit[{tag}]")
        k = core.sym_int(f"k_{what}_{len(kept)}")
        prove(core.SymBool(z3.Implies(_tm(t0 == k * unit), _tm(t1 == t0))), f"{what}-exact-when-representable[{tag}]")
        kept.append((t0, t1))
      # an end that was absent and came back bounded cuts nothing short: the element still ends where its source does, within the units
      # its ancestors' offsets may have moved
      if e0 is None and ae0 is None:
        prove(ae1 is None or bool(ae1 >= ab1), f"unbounded-element-keeps-a-proper-interval[{tag}]")
    else:
      prove(not any(mandatory[i:]), "every-element-with-content-shown-longer-than-one-unit-is-read-back",
            note=str([(x[0], x[5], x[6]) for x, mm in zip(src[i:], mandatory[i:]) if mm]))
    for x in range(len(kept) if order else 0):
      for y in range(x + 1, min(x + 2, len(kept))):
        (p0, p1), (q0, q1) = kept[x], kept[y]
        prove(core.SymBool(z3.Implies(_tm(p0 <= q0), _tm(p1 <= q1))), f"order-of-times-kept[{x},{y}]")
        prove(core.SymBool(z3.Implies(_tm(q0 <= p0), _tm(q1 <= p1))), f"order-of-times-kept[{y},{x}]")

  return Harness(f"roundtrip[{shape}:{'+'.join(mask)};{syntax}{'@' + rate if rate else ''}]", run,
                 ["ttconv.imsc.writer:from_model", "ttconv.imsc.reader:to_model", "ttconv.imsc.attributes:to_time_format", "ttconv.imsc.utils:parse_time_expression",
                  "ttconv.imsc.elements:ContentElement.ParsingContext.process", "ttconv.imsc.elements:ContentElement.from_model"],
                 "replayers.c05:shape", {"shape": shape, "mask": list(mask), "syntax": syntax, "rate": rate},
                 "write -> read of the whole document: same structure, every time exact when representable, else within one unit, order kept "
                 "(all rational timings below 2^18 s, this shape)")
