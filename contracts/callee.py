"""Callee contracts used modularly (pyvc.modular): each is stated once here, proved for the callee's real body by the harnesses
named in DISCHARGED_BY, and assumed at the call sites inside other harnesses."""
from __future__ import annotations

from fractions import Fraction

from pyvc import core, modular
from pyvc.core import assume

import ttconv.time_code as T

DISCHARGED_BY = {
  "ClockTime.from_seconds": ["ClockTime.from_seconds.fields/P7-fields-in-range", "ClockTime.from_seconds.total/P7-total-ms==round-half-even(1000t)",
                             "ClockTime.from_seconds.negative/P7-negative-rejected"],
  "SmpteTimeCode.add_frames": ["add_frames@30/P4-label-after-add-valid", "add_frames@30/P4-count'==count+k",
                               "add_frames@30000/1001/P4-label-after-add-valid", "add_frames@30000/1001/P4-count'==count+k"],
}


def assumed(*names):
  """evidence entries for the callee contracts a property's harnesses actually use"""
  return [{"callee": k, "stated_in": "contracts/callee.py", "discharged_in_this_run_by": DISCHARGED_BY[k]} for k in names]


def clock_total_ms(c):
  return ((c.get_hours() * 60 + c.get_minutes()) * 60 + c.get_seconds()) * 1000 + c.get_milliseconds()


def clocktime_from_seconds(real):
  """contract of ttconv.time_code.ClockTime.from_seconds for exact rational arguments:
       requires  seconds is an int or a Fraction
       raises    ValueError  iff  seconds < 0
       ensures   0 <= m < 60, 0 <= s < 60, 0 <= ms < 1000, h >= 0,  ((h*60+m)*60+s)*1000+ms == round_half_even(1000*seconds)
     (float arguments and concrete arguments run the real body)"""
  def stub(seconds):
    if not isinstance(seconds, (core.SymFrac, core.SymInt)):
      return real(seconds)
    modular.note_use("ClockTime.from_seconds")
    if seconds < 0:
      raise ValueError("Seconds must not be less than zero")
    tot = round(seconds * 1000)
    h, m, s, ms = (modular.fresh_int("ct_" + n) for n in ("h", "m", "s", "ms"))
    assume((h >= 0) & (m >= 0) & (m < 60) & (s >= 0) & (s < 60) & (ms >= 0) & (ms < 1000))
    assume(((h * 60 + m) * 60 + s) * 1000 + ms == tot)
    return T.ClockTime(h, m, s, ms)
  return stub


CLOCKTIME = (T.ClockTime, "from_seconds", clocktime_from_seconds, True)


def smpte_add_frames(real):
  """contract of ttconv.time_code.SmpteTimeCode.add_frames (rates 30 and 30000/1001; the statement C12 proves as P4 for the real body):
       requires  the label is valid at its rate, hours < 2**30, |nb_frames| < 2**20, count(label) + nb_frames >= 0
       ensures   the label is valid, count(label') == count(label) + nb_frames, the frame rate is unchanged
       modifies  only _hours, _minutes, _seconds, _frames of self
     the requires clause is an OBLIGATION at every call site (`add_frames.requires`); concrete labels run the real body"""
  from specs import smpte

  def stub(self, nb_frames=1):
    old = (self._hours, self._minutes, self._seconds, self._frames)
    if not any(isinstance(x, core.Proxy) for x in old + (nb_frames,)):
      return real(self, nb_frames)
    rate = self._frame_rate
    if rate not in (Fraction(30), Fraction(30000, 1001)):
      return real(self, nb_frames)
    modular.note_use("SmpteTimeCode.add_frames")
    before = smpte.count(*old, rate)
    core.prove(smpte.valid(*old, rate) & (old[0] < 2 ** 30) & (nb_frames > -2 ** 20) & (nb_frames < 2 ** 20) & (before + nb_frames >= 0),
               "add_frames.requires", kind="pre")
    h, m, s, f = (modular.fresh_int("tc_" + n) for n in ("h", "m", "s", "f"))
    assume(smpte.valid(h, m, s, f, rate))
    assume(smpte.count(h, m, s, f, rate) == before + nb_frames)
    self._hours, self._minutes, self._seconds, self._frames = h, m, s, f
    return None
  return stub


ADD_FRAMES = (T.SmpteTimeCode, "add_frames", smpte_add_frames, False)
