"""Callee contracts used modularly (pyvc.modular): each is stated once here, proved for the callee's real body by the harnesses
named in DISCHARGED_BY, and assumed at the call sites inside other harnesses."""
from __future__ import annotations

from fractions import Fraction

from pyvc import core, modular
from pyvc.core import assume

import ttconv.time_code as T

DISCHARGED_BY = {
  "ClockTime.from_seconds": ["ClockTime.from_seconds.fields/P7-fields-in-range", "ClockTime.from_seconds.total/P7-total-ms==round-half-even(1000t)",
                             "ClockTime.from_seconds.negative/P7-negative-rejected"],
}


def clock_total_ms(c):
  return ((c.get_hours() * 60 + c.get_minutes()) * 60 + c.get_seconds()) * 1000 + c.get_milliseconds()


def clocktime_from_seconds(real):
  """contract of ttconv.time_code.ClockTime.from_seconds for exact rational arguments:
       requires  seconds is an int or a Fraction
       raises    ValueError  iff  seconds < 0
       ensures   0 <= m < 60, 0 <= s < 60, 0 <= ms < 1000, h >= 0,  ((h*60+m)*60+s)*1000+ms == round_half_even(1000*seconds)
     (float arguments and concrete arguments run the real body)"""
  def stub(seconds):
    if not isinstance(seconds, (core.SymFrac, core.SymInt)):
      return real(seconds)
    modular.note_use("ClockTime.from_seconds")
    if seconds < 0:
      raise ValueError("Seconds must not be less than zero")
    tot = round(seconds * 1000)
    h, m, s, ms = (modular.fresh_int("ct_" + n) for n in ("h", "m", "s", "ms"))
    assume((h >= 0) & (m >= 0) & (m < 60) & (s >= 0) & (s < 60) & (ms >= 0) & (ms < 1000))
    assume(((h * 60 + m) * 60 + s) * 1000 + ms == tot)
    return T.ClockTime(h, m, s, ms)
  return stub


CLOCKTIME = (T.ClockTime, "from_seconds", clocktime_from_seconds, True)
