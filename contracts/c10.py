"""C10 -- the SRT reader reproduces every cue's time, lines and formatting exactly.   Level: other (proved time clauses + bounded).

Functions under contract: ttconv.srt.reader.to_model (state machine COUNTER -> TC -> TEXT), _TextParser.handle_starttag /
handle_endtag / handle_data, ttconv.utils.parse_color; compositions with ttconv.srt.writer.from_model and
ttconv.imsc.writer.from_model (frames syntax).  The oracle is specs/srt.py (SubRip grammar written independently).

Proof tier (contracts/reader_times.py): the time computation of the reader is inline in to_model, behind a regular-expression match on
a text line; the compiled pattern is replaced by a stub whose named groups are symbolic digit strings ranging over everything the real
sub-patterns can spell (A-RE), and the real reader runs on a file with a placeholder timing line.  Proved for ALL digit values:
begin and end of the paragraph are exactly the printed times as rationals (never a float), hour fields of two or three digits;
and, through the real IMSC writer in frames syntax at 24/25/30/50/60 fps, a printed time that is a whole number of frames is written as
exactly that frame count (the `lands on the intended frame` clause); and `reading the SRT writer's own output returns the cues
that were written`: on document shapes with symbolic timing the text the real writer returns (times are format tokens) is read by
the real reader in the same symbolic run (timing pattern wrapped by restub.TokenRegex): one paragraph per cue written, same begin
and end as exact rationals, same text lines.
Everything that involves the text of a cue (lines, tags, counters, blank-line runs, round trip) is string processing: bounded tier only
(rtc/c10.py), where also every millisecond value 000..999, every hour value 00..999 in both spellings and every mm:ss value are enumerated."""
import framework

PROP = "C10"
ASSUMPTIONS = [
  "A-SPEC: specs/srt.py is my reading of the de-facto SubRip format: counter line, `HH(H):MM:SS,mmm --> HH(H):MM:SS,mmm`, 1..n text lines, "
  "blank line; tags <b> <i> <u> <font color=X> and {b} {i} {u} apply to the enclosed characters, across line breaks of the cue; no escaping",
  "the reader is given the stream tt.py gives it (text mode, UTF-8, universal newlines), so CR LF reaches it as LF; a io.StringIO that still "
  "contains CR LF is NOT demanded to work (there the current reader leaves a CR at the end of every non-final text line)",
  "time type: any numbers.Rational (Fraction or int) equal to the printed time is accepted; a float is a violation even when its value is the "
  "nearest double, because the statement excludes binary floating point",
  "colour: an unspecified colour is identified with white (the reader's region default), opaque #RRGGBB == #RRGGBBff; colour values generated: "
  "the 18 HTML keywords that TTML also names (any case), #RRGGBB, #RRGGBBAA, quoted or unquoted",
  "style of a character = nearest specification on its ancestors up to the paragraph (any span structure that yields the same per-character "
  "bold / italic / underline / colour is accepted; empty spans and empty text nodes are ignored)",
  "text alphabet: letters (incl. non-ASCII and one astral code point), digits, punctuation . , ! ? ' - : ; \" ( ), single interior spaces; in tag-free "
  "cues also stand-alone `&`, `<`, `>`, `<3`, `1<2` (no escaping exists in SubRip); text lines never start or end with a blank; character "
  "references such as `&amp;` are NOT generated (the current reader decodes them; SubRip has no escaping; not demanded either way)",
  "counters: any line of digits (sequential, zero-based, repeated, descending, zero-padded, 19 digits, surrounded by a blank); counters are never absent",
  "frames clause: only cue times that are an exact whole number of frames are checked (there the frame is independent of the writer's rounding rule)",
  "round trip: documents built with the model API (one region, body/div/p, ms-exact non-overlapping times, spans nested <= 3 with bold / italic / "
  "underline / colour, Br); underline is not compared with the document (the writer's treatment of underline belongs to C06) but is "
  "compared with the oracle's reading of the written text",
  "safety contracts (cue without text, stray / unclosed / mis-nested tag) lie OUTSIDE the quantifier of the property (1-5 text lines, nested/adjacent "
  "tags); they only demand: no internal exception (None or ValueError are accepted as rejection), the other cues read correctly, the ill-formed "
  "cue dropped or its characters kept; their keys are `empty-cue-*`, `stray-end-tag-*`, `unclosed-tag-*`, `misnested-tag-*`",
  "long tag forms (<bold>, {italic}, ...) are ttconv extensions outside the statement: not generated; tag and attribute names in angle-bracket "
  "syntax are case-insensitive (the reader uses html.parser) and are generated in lower, upper and mixed case",
]
FUNCTIONS = ["ttconv.srt.reader:to_model", "ttconv.srt.reader:_TextParser.handle_starttag", "ttconv.srt.reader:_TextParser.handle_endtag",
             "ttconv.srt.reader:_TextParser.handle_data", "ttconv.utils:parse_color"]


def check(tier, seed, only=None, skip_a=False, skip_b=False):
  from pyvc import loader
  findings, undecided, errors = [], [], []
  cov = {"functions_under_contract": []}
  for fn in FUNCTIONS:
    try:
      cov["functions_under_contract"].append(loader.locate(fn))
    except Exception as e:  # pylint: disable=broad-except
      undecided.append(f"obligation={fn} reason=function-not-found:{e}")
  if not skip_a:
    from contracts import reader_times
    from contracts.c12 import clock_harnesses
    hs = [reader_times.h_srt_times()] + [reader_times.h_srt_frames(fps) for fps in (24, 25, 30, 50, 60)]
    hs += [h for h in clock_harnesses() if h.name.startswith("ClockTime.from_seconds")]      # discharge the callee contract used below
    rt = [("twop", ("b1", "e1")), ("nested", ("s1b", "s3e")), ("styled", ("ab", "ae"))] + ([("twop", ("b1", "e1", "e2")), ("rubyparts", ("rtb", "rte"))] if tier != "quick" else [])
    hs += [reader_times.h_writer_reader_roundtrip("srt", shape, mask) for shape, mask in rt]
    for h in hs:
      h.budget_s, h.max_paths = 300.0, 20000
    if only:
      hs = [h for h in hs if only in h.name]
    cov_a, f_a, u_a, e_a = framework.run_tier_a(PROP, hs)
    located = {f["qualname"] for f in cov_a.get("functions_under_contract", [])}
    cov_a["functions_under_contract"] = cov_a.get("functions_under_contract", []) + [f for f in cov["functions_under_contract"] if f["qualname"] not in located]
    cov = cov_a
    from contracts import callee
    cov["assumed_callee_contracts"] = callee.assumed("ClockTime.from_seconds")
    findings += f_a
    undecided += u_a
    errors += e_a
  if not skip_b:
    data, errs = framework.run_tier_b("c10", tier, seed)
    errors += errs
    if data:
      findings += framework.findings_from_rtc(data)
      for k in ("evaluations", "distinct_nontrivial", "rule", "bounded_scope", "per_contract"):
        cov[k] = data.get(k)
      cov["bounded_exhaustive"] = data.get("exhaustive")
      cov["bounded_samples"] = data.get("samples", [])[:10]
      if not data.get("evaluations"):
        errors.append("no contract was evaluated")
  cov["explanation"] = ("Tier A (proved, pyvc + z3, assumption A-RE): the real srt.reader.to_model is executed on a file whose timing line is a "
                        "placeholder matched by a stub of the reader's own compiled pattern with symbolic digit groups; for every value of "
                        "every time field, begin and end of the paragraph are exactly the printed times and exact rationals (not floats).  "
                        "Tier B: run-time contracts on the real ttconv.srt.reader.to_model against an independent SubRip oracle over generated SRT texts "
                        "(cue grammar of the property), per-field exhaustive time grids, frame-boundary times through the IMSC writer in frames "
                        "syntax for 8 frame rates, and writer round trips of generated model documents (bounded, not counted as proved).")
  cov["trusted_base"] = ASSUMPTIONS
  return framework.Outcome(PROP, tier, seed, "other", cov, ASSUMPTIONS, findings, undecided, errors, 0.0)
