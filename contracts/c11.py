"""C11 -- the WebVTT reader reproduces cues, inline markup and cue-setting geometry.   Level: other (bounded run-time contracts).

Code under contract: ttconv.vtt.reader (to_model, vtt_timestamp_to_secs, parse_vtt_pct, parse_vtt_int, _get_or_make_region,
_TextCueParser) and ttconv.vtt.tokenizer.CueTextTokenizer.  Oracle: specs/vtt.py (file structure, cue text, cue settings written
from the WebVTT recommendation).  The harness is rtc/c11.py; see its docstring for the contracts and the enumerated scopes.

Proof tier: the geometry of `_get_or_make_region` is executed symbolically (pyvc) on the real source with the two string parsers
replaced by their contracts (a percentage 0..100 / an integer line number), for every combination of setting kinds; see
`region_harnesses`.  The same clauses are decided by complete enumeration of the stated grid in the bounded tier.
"""
from __future__ import annotations

from fractions import Fraction

import framework

PROP = "C11"

ASSUMPTIONS = [
  "A-SPEC: specs/vtt.py is my reading of W3C WebVTT (file structure 4.1/6.1, cue text 4.2.2/6.4, cue settings 4.4/6.3, rendering 7.2); "
  "only conforming files are generated (tags properly nested, & and < escaped, character references end with ';', no empty or "
  "white-space-only payload lines); an empty file, stray end tags and <rt> outside <ruby> are outside the domain of the statement",
  "markup is compared through a structure-independent view: per character the effective bold/italic/underline/colour/background/"
  "language/ruby role (nearest enclosing element that sets it) and the absolute time of the preceding time stamp tag (sum of the "
  "begins of the enclosing spans); how spans are nested or split is not constrained; ruby bases and ruby texts of adjacent ruby "
  "containers are compared as two ordered groups; <v> and non-colour classes have no model counterpart and must only leave the text intact",
  "times must be exact rationals (numbers.Rational); a float is reported once (key vtt-time-is-float) and then read to the nearest "
  "millisecond so that other contracts are still evaluated",
  "a cue without payload may become an empty paragraph or be omitted",
  "region: origin/extent in percent of the root container, tolerance 1e-6; text alignment for left-to-right text (left=start, "
  "right=end); display alignment before/center/after for line alignment start/center/end, 'after' without a line setting; for "
  "vertical:rl (definition and rendering algorithm of WebVTT disagree) and for negative line numbers without explicit alignment "
  "both before and after are accepted",
  "anchoring (my reading of 'the alignment the WebVTT rendering rules give'): with `line:P%` (and line number 0) the aligned edge of the "
  "region is at P% (for vertical:rl also the mirrored reading); with `position:P%` the aligned edge is at P% and with `size` the extent is "
  "min(size, maximum size at that position) as in WebVTT 7.2; no position is demanded for other line numbers or for size without position; "
  "percentages with a fraction may be rounded to the nearest percent",
  "equal settings = the same set of settings in any order",
  "writer round trip: three small documents (plain, inline styles, three regions with text alignment) x 8 configurations; relative to the "
  "document only the number of cues, their times and text lines are compared (what the writer drops is C07's business); markup and "
  "alignment are compared between the reader and the oracle on the text the writer produced",
  "proof tier: parse_vtt_pct / parse_vtt_int are replaced by their contracts (checked exhaustively on the grid in the bounded tier); "
  "A-PY float model of pyvc (round-off 2^-53 relative), geometry stated with tolerance 1e-6; A-SMT soundness of z3/cvc5",
]

FUNCTIONS = ["ttconv.vtt.reader:to_model", "ttconv.vtt.reader:vtt_timestamp_to_secs", "ttconv.vtt.reader:parse_vtt_pct",
             "ttconv.vtt.reader:parse_vtt_int", "ttconv.vtt.reader:_get_or_make_region", "ttconv.vtt.reader:_TextCueParser.handle_token",
             "ttconv.vtt.reader:_TextCueParser._handle_ts", "ttconv.vtt.reader:_TextCueParser._handle_starttag",
             "ttconv.vtt.reader:_TextCueParser._handle_endtag", "ttconv.vtt.reader:_TextCueParser._handle_string",
             "ttconv.vtt.tokenizer:CueTextTokenizer"]


# ---------------------------------------------------------------------------------------------------------------------
# proof tier: the geometry of _get_or_make_region for ALL percentages 0..100 and ALL integer line numbers

TOLERANCE = Fraction(1, 10 ** 6)
ROWS_BOUND = 10 ** 6      # |line number| < 10^6 (float arithmetic stays far below 2^53)


def _exact(x):
  """the real number a model value denotes (floats are read exactly; no rounding is added by the contract's own arithmetic)"""
  from pyvc import core
  if isinstance(x, core.SymFloat):
    return core.SymFrac(x.term)
  if isinstance(x, core.SymInt):
    import z3
    return core.SymFrac(z3.ToReal(x.term))
  if isinstance(x, (float, int)):
    return Fraction(x)
  return x


def _abs_le(a, b, tol):
  return (a - b <= tol) & (b - a <= tol)


def _edge(o, e, edge):
  return o if edge == "start" else (o + e / 2 if edge == "center" else o + e)


def _settings_template(vertical, line, line_align, position, position_align, size, align):
  """line in {None,'pct','zero','neg','pos'}; position/size in {None,'sym'} -> (template with {L} {N} {P} {S}, example for the oracle)"""
  t, ex = [], []
  if vertical:
    t.append(f"vertical:{vertical}")
    ex.append(f"vertical:{vertical}")
  if line:
    la = f",{line_align}" if line_align else ""
    t.append({"pct": "line:{L}%", "zero": "line:0", "neg": "line:{N}", "pos": "line:{N}"}[line] + la)
    ex.append({"pct": "line:50%", "zero": "line:0", "neg": "line:-2", "pos": "line:3"}[line] + la)
  if position:
    pa = f",{position_align}" if position_align else ""
    t.append("position:{P}%" + pa)
    ex.append("position:50%" + pa)
  if size:
    t.append("size:{S}%")
    ex.append("size:50%")
  if align:
    t.append(f"align:{align}")
    ex.append(f"align:{align}")
  return t, ex


def _region_harness(axis, vertical, line, line_align, position, position_align, size, align):
  from pyvc import core
  from pyvc.core import assume, sym_int
  from pyvc.harness import Harness

  def prove(cond, name, note=""):
    # not assumed afterwards: a clause that fails for every value must not make the rest of the path vacuous
    core.cur().prove(cond, name, "post", note, assume_after=False)

  from specs import vtt as V
  from rtc.c11 import settings_class, _key

  template, example = _settings_template(vertical, line, line_align, position, position_align, size, align)
  ex_settings = V.parse_settings(example)
  req = V.region_requirements(ex_settings)
  shown = [t.replace("{N}", "{N<0}" if line == "neg" else "{N>0}") for t in template]
  name = f"region.{axis}[{' '.join(shown) or 'no settings'}]"

  def run(ctx):
    import ttconv.vtt.reader as R
    import ttconv.model as M
    import ttconv.style_properties as SP
    pct, ints = {}, {}
    L = N = P = S = None
    if line == "pct":
      L = sym_int("L")
      assume((L >= 0) & (L <= 100))
      pct["{L}%"] = L
    elif line == "zero":
      ints["0"] = 0
    elif line in ("neg", "pos"):
      N = sym_int("N")
      assume((N < 0) & (N > -ROWS_BOUND) if line == "neg" else (N > 0) & (N < ROWS_BOUND))
      ints["{N}"] = N
    if position:
      P = sym_int("P")
      assume((P >= 0) & (P <= 100))
      pct["{P}%"] = P
    if size:
      S = sym_int("S")
      assume((S >= 0) & (S <= 100))
      pct["{S}%"] = S
    old = R.parse_vtt_pct, R.parse_vtt_int
    R.parse_vtt_pct = pct.get            # contract of parse_vtt_pct: the percentage (an integer 0..100 here) or None
    R.parse_vtt_int = ints.get           # contract of parse_vtt_int: the integer or None
    try:
      doc = M.ContentDocument()
      _st, reg = core.call_real(R._get_or_make_region, doc, list(template))
    finally:
      R.parse_vtt_pct, R.parse_vtt_int = old
    o = reg.get_style(SP.StyleProperties.Origin)
    e = reg.get_style(SP.StyleProperties.Extent)
    pct_units = SP.LengthType.Units.pct
    prove(all(x.units == pct_units for x in (o.x, o.y, e.width, e.height)), "region-units")
    box = {"x": (_exact(o.x.value), _exact(e.width.value)), "y": (_exact(o.y.value), _exact(e.height.value))}
    tol = TOLERANCE
    if axis == "line":
      oo, ee = box[req.line_axis]
      cls = settings_class(ex_settings, "line")
      prove((oo >= -tol) & (ee >= -tol) & (oo + ee <= 100 + tol), _key(cls, "outside-root"),
            note=f"0 <= origin, 0 <= extent, origin + extent <= 100 on the {req.line_axis} axis")
      wm = reg.get_style(SP.StyleProperties.WritingMode)
      prove(wm is not None and wm.value == req.writing_mode, "region-writing-mode")
      da = reg.get_style(SP.StyleProperties.DisplayAlign)
      prove(da is not None and da.value in req.display_align, "region-display-align")
      if req.line_anchor is not None:
        edge, _value, _tol, mirrored_ok = req.line_anchor
        value = L if line == "pct" else 0
        ok = _abs_le(_edge(oo, ee, edge), value, tol)
        if mirrored_ok:
          mirror = {"start": "end", "center": "center", "end": "start"}[edge]
          ok = ok | _abs_le(_edge(oo, ee, mirror), 100 - value, tol)
        prove(ok, _key(cls, "anchor"), note=f"{edge} edge of the region at the line position")
    else:
      oo, ee = box[req.position_axis]
      cls = settings_class(ex_settings, "position")
      inside = (oo >= -tol) & (ee >= -tol) & (oo + ee <= 100 + tol)
      prove(inside, _key(cls, "outside-root"), note=f"0 <= origin, 0 <= extent, origin + extent <= 100 on the {req.position_axis} axis")
      ta = reg.get_style(SP.StyleProperties.TextAlign)
      prove(ta is not None and ta.value in req.text_align, "region-text-align")
      if req.position_anchor is not None:
        edge = req.position_anchor[0]
        prove(_abs_le(_edge(oo, ee, edge), P, tol), "region-position:anchor", note=f"{edge} edge of the region at the cue position")
        if size:
          if edge == "start":
            mx = 100 - P
          elif edge == "end":
            mx = P
          else:
            mx = core.ite(P <= 50, 2 * P, 2 * (100 - P))
          want = core.ite(S <= mx, S, mx)
          prove(core.implies(inside, _abs_le(ee, want, 2 * tol)), "region-position:size", note="extent = min(size, maximum size at the position)")

  clause = ("line axis: region inside the root container, writing mode, display alignment, anchoring" if axis == "line" else
            "position axis: region inside the root container, text alignment, anchoring, extent")
  return Harness(name, run, ["ttconv.vtt.reader:_get_or_make_region"], None, {"template": template, "axis": axis}, clause)


def region_harnesses():
  hs = []
  for vertical in (None, "rl", "lr"):
    for line in ("pct", "zero", "neg", "pos"):
      for la in (None, "start", "center", "end"):
        for size in (None, "sym"):
          hs.append(_region_harness("line", vertical, line, la, None, None, size, None))
    for align in (None, "start", "center", "end", "left", "right"):
      for size in (None, "sym"):
        for position, pa in ((None, None), ("sym", None), ("sym", "line-left"), ("sym", "center"), ("sym", "line-right")):
          for companion in (None, "pct"):
            hs.append(_region_harness("position", vertical, companion, "center" if companion else None, position, pa, size, align))
  return hs


def _proof_tier(tier, only):
  """-> (coverage, findings, notes).  Refuted obligations become findings only when reproduced natively (one replay per witness
  class); `unknown` / unsupported constructs are recorded as notes: the bounded tier decides the same clauses on the complete grid."""
  hs = region_harnesses()
  if only:
    hs = [h for h in hs if only in h.name]
  for h in hs:
    h.budget_s = 30.0 if tier == "quick" else 120.0
  cov, raw, undecided, errors = framework.run_tier_a(PROP, hs)
  notes = [f"undecided: {u}" for u in undecided] + [f"error: {e}" for e in errors]
  by_class = {}
  for f in raw:
    cls = f.key.split("/")[-1].split("[path")[0]
    by_class.setdefault(cls, []).append(f)
  findings = []
  for cls in sorted(by_class):
    group = by_class[cls]
    first = None
    for f in group[:4]:       # the solver's model of a float computation may be spurious: try a few
      args = {"template": f.replay.get("replay_args", {}).get("template"), "model": f.replay.get("model"), "key": cls}
      ok, text = framework.native_replay("replayers.c11:region_model", args)
      if ok:
        first = (f, args, text)
        break
    if first is None:
      notes.append(f"refuted but not reproduced natively (left to the bounded tier): {cls} ({len(group)} obligations)")
      continue
    f, args, text = first
    findings.append(framework.Finding(
      key=cls, tier="A", reproduced=True,
      summary=f"{len(group)} obligation(s) of the proof tier refuted, e.g. {f.key} with model {f.replay.get('model')}: {text.splitlines()[-1] if text else ''}",
      replay={"obligation": f.key, "kind": "post", "harness": f.replay.get("harness"), "clause": f.replay.get("clause"),
              "model": f.replay.get("model"), "replayer": "replayers.c11:region_model", "replay_args": {"template": args["template"], "key": cls},
              "native_output": text, "refuted_obligations": [g.key for g in group][:40]},
      solver_output=f.solver_output))
  cov["proof_tier_notes"] = notes
  return cov, findings


def check(tier, seed, only=None, skip_a=False, skip_b=False):
  from pyvc import loader
  findings, undecided, errors = [], [], []
  cov = {}
  if not skip_a:
    try:
      cov, findings = _proof_tier(tier, only)
    except Exception:  # pylint: disable=broad-except
      import traceback
      cov = {"proof_tier_notes": ["proof tier not run: " + traceback.format_exc(limit=4)]}
    # cue times: the real vtt_timestamp_to_secs / to_model with the reader's timestamp pattern stubbed by symbolic digit groups
    from contracts import reader_times
    from contracts.c12 import clock_harnesses
    ths = [reader_times.h_vtt_timestamp(True), reader_times.h_vtt_timestamp(False), reader_times.h_vtt_cue_times()]
    # `reading the WebVTT writer's own output returns the cues that were written`: writer -> reader in one symbolic run on document shapes
    ths += [h for h in clock_harnesses() if h.name.startswith("ClockTime.from_seconds")]
    rt = [("twop", ("b1", "e1")), ("nested", ("s1b", "s3e")), ("styled", ("ab", "ae"))] + ([("twop", ("b1", "e1", "e2")), ("rubyparts", ("rtb", "rte"))] if tier != "quick" else [])
    ths += [reader_times.h_writer_reader_roundtrip("vtt", shape, mask) for shape, mask in rt]
    for h in ths:
      h.budget_s, h.max_paths = 300.0, 20000
    if only:
      ths = [h for h in ths if only in h.name]
    if ths:
      cov_t, f_t, u_t, e_t = framework.run_tier_a(PROP, ths)
      from contracts import callee
      cov["assumed_callee_contracts"] = callee.assumed("ClockTime.from_seconds")
      for k in ("obligations", "discharged", "harnesses", "paths", "reachability_probes", "reachable"):
        cov[k] = cov.get(k, 0) + cov_t.get(k, 0)
      for k in ("solver_time_s", "explore_time_s"):
        cov[k] = round(cov.get(k, 0) + cov_t.get(k, 0), 2)
      for b, n in cov_t.get("by_backend", {}).items():
        cov.setdefault("by_backend", {})[b] = cov.get("by_backend", {}).get(b, 0) + n
      cov["functions_under_contract"] = list(cov.get("functions_under_contract", [])) + \
          [f for f in cov_t.get("functions_under_contract", []) if f["qualname"] not in {g["qualname"] for g in cov.get("functions_under_contract", [])}]
      cov.setdefault("samples", []).extend(cov_t.get("samples", [])[:3])
      for k in ("checker_cmd", "rewrites_applied_to_source", "rewrite_crosscheck"):
        cov.setdefault(k, cov_t.get(k))
      findings += f_t
      undecided += u_t
      errors += e_t
  located = list(cov.get("functions_under_contract", []))
  have = {f["qualname"] for f in located}
  for fn in FUNCTIONS:
    if fn in have:
      continue
    try:
      located.append(loader.locate(fn))
    except Exception as e:  # pylint: disable=broad-except
      undecided.append(f"obligation={fn} reason=function-not-found:{e}")
  cov["functions_under_contract"] = located
  if not skip_b:
    data, errs = framework.run_tier_b("c11", tier, seed)
    errors += errs
    if data:
      seen = {f.key for f in findings}
      for f in framework.findings_from_rtc(data):
        if f.key in seen:
          continue       # the same witness class was already refuted (and reproduced) by the proof tier
        findings.append(f)
      for k in ("evaluations", "distinct_nontrivial", "rule", "bounded_scope", "per_contract"):
        cov[k] = data.get(k)
      cov["bounded_samples"] = data.get("samples", [])[:12]
      cov["bounded_exhaustive"] = False
      cov["exhaustive_contracts"] = (data.get("bounded_scope") or {}).get("exhaustive_contracts")
  cov["explanation"] = ("Tier A: cue times -- the real vtt_timestamp_to_secs and to_model with the timestamp pattern stubbed by symbolic digit "
                        "groups (A-RE): exact rational begin/end for every value of every field, hours optional; the geometry of _get_or_make_region (real source, symbolically executed, string parsers replaced by their "
                        "contracts) for all percentages 0..100 and all integer line numbers, every combination of setting kinds: region "
                        "inside the root container, writing mode, text/display alignment, anchoring, extent.  Tier B (bounded run-time "
                        "contracts against an independent WebVTT oracle, not counted as proved): helper functions on grids; the same region "
                        "contracts and region sharing on the complete grid of cue settings; all tag nesting chains to depth 3; seeded "
                        "grammar-directed files; writer round trip.  Undecided / unsupported proof obligations do not decide anything: the "
                        "verdict for those clauses is the bounded tier's (level `other`).")
  cov["trusted_base"] = ASSUMPTIONS
  return framework.Outcome(PROP, tier, seed, "other", cov, ASSUMPTIONS, findings, undecided, errors, 0.0)
