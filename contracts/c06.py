"""C06 -- SRT/WebVTT cues carry exactly the visible text over exactly its intervals.   Level: other (proved on shapes + bounded).

Proof tier (pyvc; all rational timing values, unbounded in time):
  * kernel: the begin and end that SrtParagraph / VttCue write are the interval bounds rounded to the nearest millisecond
    (set_begin / set_end / ClockTime.from_seconds / __str__ executed symbolically, the eight printed fields recombined);
  * the WHOLE writers on document shapes (specs/isd_shapes.py: two paragraphs, nested spans with a line break, rubies with timed
    parts, a line break with <set>, -- thorough: regions, three symbolic values): srt.writer.from_model / vtt.writer.from_model
    are executed symbolically (ISD generation, both merge filters, the tree walk, cue serialisation), the written text is taken
    apart into its literal text and its formatted numbers (format tokens), parsed by the strict reader of specs/cues.py, and on
    every feasible path the cue list must describe the same function time -> payload as the reference flattening of the oracle
    snapshots (specs/isd.py) at the significant times; also: the output is grammatical, every cue has begin < end.
    ClockTime.from_seconds is used through its contract (contracts/callee.py), discharged by three harnesses of this run.
    The significant times used for the reference are those the real code computes; that they are complete is C02's obligation
    for the same shapes.
Bounded tier: rtc/c06.py -- the same relation over generated documents (arbitrary nesting, text with markup-significant
characters, regions, moving regions, partial rubies) x writer configurations; the default end of an unbounded last cue
(begin + 10 s) over a grid of begin times.
"""
from __future__ import annotations

import framework
from contracts.c07 import to_string_harness

PROP = "C06"

ASSUMPTIONS = [
  "A-PY/A-SMT as in C12; proof tier: times below 2^22 s",
  "A-SPEC: specs/cues.py (reference flattening, strict cue parsers) and specs/isd.py (TTML time containment, region association, "
  "ISD pruning, xml:space) are my reading of the formats and of the statement",
  "significant times are the begins/ends of all elements and animation steps; successive cues with equal payload that touch are one "
  "stretch (a significant time at which nothing changes may or may not split a cue): the contract compares the function time -> payload",
  "rounding to the millisecond is to the nearest, ties to even or upwards (both accepted); an interval whose rounded begin and end "
  "coincide has no cue (a cue needs begin < end)",
  "the unbounded last stretch ends 10 s after the begin of the last cue actually written",
  "line breaks: br, paragraph and region boundaries and the line terminators (LF, CR, CRLF) inside preserved text are line breaks; "
  "runs of line breaks count as one and leading/trailing ones are dropped (a payload cannot contain an empty line); lines of white "
  "space only may be kept or dropped",
  "ruby: the text of rb/rbc is required; the text of rt/rtc (and of rp) may be written after its base or omitted, consistently in a document",
  "with WebVTT line_position every region keeps its own cue: cues over the same interval follow each other in region order and are "
  "read as one payload joined by line breaks",
  "text is read from the output leniently (only the known tags are tags, only well-formed character references are decoded), so that "
  "missing escaping (C07) does not hide or fake a text difference",
  "visibility/opacity (whether hidden text is `visible text` is not stated) and set-animation of elements with a non-zero begin (known "
  "finding of C02) are not generated; rubies with parts that are not presented (own timing, no content, another region) are: the text of "
  "the parts that are presented is required",
]

FUNCTIONS_B = ["ttconv.srt.writer:from_model", "ttconv.srt.writer:SrtContext.append_element", "ttconv.srt.writer:SrtContext.add_isd",
               "ttconv.srt.writer:SrtContext.finish", "ttconv.vtt.writer:from_model", "ttconv.vtt.writer:VttContext.process_inline_element",
               "ttconv.vtt.writer:VttContext.process_p", "ttconv.vtt.writer:VttContext.add_isd", "ttconv.vtt.writer:VttContext.finish",
               "ttconv.filters.isd.merge_regions:RegionsMergingISDFilter.process",
               "ttconv.filters.isd.merge_paragraphs:ParagraphsMergingISDFilter.process",
               "ttconv.filters.isd.merge_paragraphs:ParagraphsMergingISDFilter._get_paragraphs",
               "ttconv.srt.paragraph:SrtParagraph.normalize_eol", "ttconv.srt.paragraph:SrtParagraph.is_only_whitespace",
               "ttconv.vtt.cue:VttCue.normalize_eol", "ttconv.vtt.cue:VttCue.is_only_whitespace_or_empty", "ttconv.isd:ISD.generate_isd_sequence"]


WRITER_SHAPES_QUICK = [("twop", ("b1", "e1")), ("twop", ("e1", "b2")), ("nested", ("s1b", "s3e")), ("nested", ("pb", "s1e")), ("rubyparts", ("rtb", "rte")),
                       ("rubyparts", ("rbb", "rte")), ("brset", ("pb", "pe")), ("order", ("p1b", "p2b"))]
WRITER_SHAPES_THOROUGH = [("twop", ("b1", "e1", "e2")), ("nested", ("s1b", "s3b", "s3e")), ("rubyparts", ("rt2b", "rt2e", "rp1e")), ("regions", ("r1b", "r1e")),
                          ("regions", ("d2b", "p3e")), ("ruby", ("rub", "rue")), ("order", ("p1e", "p2b", "p3b"))]


def all_harnesses(tier):
  from contracts.c12 import clock_harnesses
  hs = [to_string_harness("srt", "times"), to_string_harness("vtt", "times")]
  hs += [h for h in clock_harnesses() if h.name.startswith("ClockTime.from_seconds")]      # discharge the callee contract used below
  for shape, mask in WRITER_SHAPES_QUICK + (WRITER_SHAPES_THOROUGH if tier != "quick" else []):
    for fmt in ("srt", "vtt"):
      hs.append(writer_reference_harness(fmt, shape, mask))
  return hs


def check(tier, seed, only=None, skip_a=False, skip_b=False):
  hs = all_harnesses(tier)
  if only:
    hs = [h for h in hs if only in h.name]
  for h in hs:
    h.budget_s = 300.0 if tier == "quick" else 1800.0
    h.max_paths = 20000
  cov, findings, undecided, errors = ({}, [], [], [])
  if not skip_a:
    cov, findings, undecided, errors = framework.run_tier_a(PROP, hs)
  cov["trusted_base"] = ASSUMPTIONS
  cov["explanation"] = ("Proved (all rational timings below 2^22 s): the times SrtParagraph / VttCue write are the interval bounds rounded to the "
                        "nearest millisecond; the whole SRT and WebVTT writers on document shapes (two paragraphs, nested spans + br, rubies with "
                        "timed parts, br with <set>; thorough: regions, three symbols) produce exactly the cue list of the reference flattening, "
                        "grammatical and with begin < end, ClockTime.from_seconds through its contract.  Bounded (generated documents: 0-3 "
                        "simultaneously active regions, several div/p per region, nested div, nested spans, br, ruby incl. partial, moving regions, "
                        "xml:space both, sub-millisecond and unbounded intervals, markup-significant text x SRT text_formatting on/off and WebVTT "
                        "line_position x text_align x cue_id): the same relation; default end = begin + 10 s over a grid of begin times.  "
                        "Arbitrary nesting and arbitrary text are bounded only.")
  from contracts import callee
  cov["assumed_callee_contracts"] = callee.assumed("ClockTime.from_seconds")
  if not skip_b:
    from pyvc import loader
    data, errs = framework.run_tier_b("c06", tier, seed)
    errors += errs
    fns = cov.setdefault("functions_under_contract", [])
    for fn in FUNCTIONS_B:
      try:
        loc = loader.locate(fn)
        if loc not in fns:
          fns.append(loc)
      except Exception as e:  # pylint: disable=broad-except
        undecided.append(f"obligation={fn} reason=function-not-found:{e}")
    if data:
      findings += framework.findings_from_rtc(data)
      for k in ("evaluations", "distinct_nontrivial", "rule", "bounded_scope", "per_contract"):
        cov[k] = data.get(k)
      cov["bounded_exhaustive"] = data.get("exhaustive")
      cov["bounded_samples"] = data.get("samples", [])[:6]
  return framework.Outcome(PROP, tier, seed, "other", cov, ASSUMPTIONS, findings, undecided, errors, 0.0)


# ---------------------------------------------------------------------------------------------------------------------
# the whole writer against the reference flattening, on document shapes with symbolic timing


def writer_reference_harness(fmt, shape, mask):
  """For ALL rational values of the masked timing attributes of the shape: the cues the real writer produces (times read from the
  format tokens of the written text, payloads from the literal text through the strict parser) describe the same function from
  time to payload as the reference flattening specs/cues.py of the oracle snapshots -- on every feasible path."""
  from fractions import Fraction
  from pyvc import core, modular
  from pyvc.core import assume, prove, sym_frac
  from pyvc.harness import Harness
  from contracts import callee
  from specs.isd_shapes import SHAPES
  from specs import cues as C
  from ttconv.isd import ISD
  import ttconv.srt.writer as srt_writer
  import ttconv.vtt.writer as vtt_writer

  cfg_name = fmt

  def run(ctx):
    from rtc import cues_common as CC
    vals = {}

    def v(name):
      if name not in mask:
        return None
      if name not in vals:
        x = sym_frac(name)
        assume(x >= 0)
        assume(x < 2 ** 22)
        vals[name] = x
      return vals[name]

    doc = SHAPES[shape](v)
    writer = srt_writer if fmt == "srt" else vtt_writer
    with modular.contracts(callee.CLOCKTIME):
      st, out = core.call_real(writer.from_model, doc, None, allowed=())
    import re as _re
    lits, toks = core.tokens_in(out)
    prove(all(spec in ("02d", "03") for _, spec in toks), "symbolic-values-occur-only-in-zero-padded-time-fields", note=str([s for _, s in toks][:8]))
    concrete = lits[0]
    for (_, spec), lit in zip(toks, lits[1:]):
      concrete += ("000" if spec == "03" else "00") + lit
    cues, problems, _ = CC.read_output(cfg_name, concrete)
    prove(not problems, "output-is-grammatical", note=str(problems)[:200])
    # the time fields of every timing line: literal digits or a format token
    fld = "(\\d+|\u27e6sym\\d+\u27e7)"
    sep = "," if fmt == "srt" else "\\."
    timing = _re.compile(f"{fld}:{fld}:{fld}{sep}{fld} --> {fld}:{fld}:{fld}{sep}{fld}")
    tl = [mm for mm in (timing.match(ln) for ln in out.split("\n")) if mm]
    prove(len(tl) == len(cues), "every-cue-has-its-timing-line", note=f"{len(tl)} timing lines, {len(cues)} cues")

    def val(x):
      return core.cur().tokens[int(x[4:-1])][0] if x.startswith("\u27e6") else int(x)

    def ms(g):
      return ((val(g[0]) * 60 + val(g[1])) * 60 + val(g[2])) * 1000 + val(g[3])

    actual = [{"begin": ms(mm.groups()[0:4]), "end": ms(mm.groups()[4:8]), "text": c["text"]} for mm, c in zip(tl, cues)]
    for a in actual:
      prove(a["begin"] < a["end"], "cue-begins-before-it-ends")
    st, sig = core.call_real(ISD.significant_times, doc, allowed=())
    offs = list(sig)
    ivs = C.reference_intervals(doc, "base", change_times=lambda d: offs)
    exp = C.expected_cues(doc, {"format": fmt, "line_position": False}, intervals=ivs)
    diff = C.timeline_diff(exp, actual)
    prove(diff is None, "cues==reference-flattening", note=str(diff)[:300])

  return Harness(f"{fmt}.writer==reference[{shape}:{'+'.join(mask)}]", run,
                 [f"ttconv.{fmt}.writer:from_model", "ttconv.isd:ISD.generate_isd_sequence", "ttconv.isd:ISD.significant_times",
                  "ttconv.filters.isd.merge_regions:RegionsMergingISDFilter.process", "ttconv.filters.isd.merge_paragraphs:ParagraphsMergingISDFilter.process"] +
                 (["ttconv.srt.writer:SrtContext.add_isd", "ttconv.srt.writer:SrtContext.finish", "ttconv.srt.paragraph:SrtParagraph.to_string"] if fmt == "srt" else
                  ["ttconv.vtt.writer:VttContext.add_isd", "ttconv.vtt.writer:VttContext.finish", "ttconv.vtt.cue:VttCue.to_string"]),
                 "replayers.c06:shape", {"fmt": fmt, "shape": shape, "mask": list(mask)},
                 "the cues of the whole writer carry exactly the visible text over exactly its intervals (all rational timings, this shape); "
                 "completeness of the significant times used for the reference is C02's obligation for the same shape")
