"""C06 -- SRT/WebVTT cues carry exactly the visible text over exactly its intervals.   Level: other (proved kernel + bounded).

Proof tier (all rational times): the begin and end that SrtParagraph / VttCue write are the interval bounds rounded to the
nearest millisecond (set_begin / set_end / ClockTime.from_seconds / __str__ executed symbolically, the eight printed fields
recombined), hence at most 0.5 ms away from the exact significant times.
Bounded tier: rtc/c06.py -- the cue list of srt.writer.from_model / vtt.writer.from_model against the reference flattening
specs/cues.py (independent ISD oracle specs/isd.py) over generated documents x writer configurations; the default end of an
unbounded last cue (begin + 10 s) over a grid of begin times.
"""
from __future__ import annotations

import framework
from contracts.c07 import to_string_harness

PROP = "C06"

ASSUMPTIONS = [
  "A-PY/A-SMT as in C12; proof tier: times below 2^22 s",
  "A-SPEC: specs/cues.py (reference flattening, strict cue parsers) and specs/isd.py (TTML time containment, region association, "
  "ISD pruning, xml:space) are my reading of the formats and of the statement",
  "significant times are the begins/ends of all elements and animation steps; successive cues with equal payload that touch are one "
  "stretch (a significant time at which nothing changes may or may not split a cue): the contract compares the function time -> payload",
  "rounding to the millisecond is to the nearest, ties to even or upwards (both accepted); an interval whose rounded begin and end "
  "coincide has no cue (a cue needs begin < end)",
  "the unbounded last stretch ends 10 s after the begin of the last cue actually written",
  "line breaks: br, paragraph and region boundaries and the line terminators (LF, CR, CRLF) inside preserved text are line breaks; "
  "runs of line breaks count as one and leading/trailing ones are dropped (a payload cannot contain an empty line); lines of white "
  "space only may be kept or dropped",
  "ruby: the text of rb/rbc is required; the text of rt/rtc (and of rp) may be written after its base or omitted, consistently in a document",
  "with WebVTT line_position every region keeps its own cue: cues over the same interval follow each other in region order and are "
  "read as one payload joined by line breaks",
  "text is read from the output leniently (only the known tags are tags, only well-formed character references are decoded), so that "
  "missing escaping (C07) does not hide or fake a text difference",
  "visibility/opacity (whether hidden text is `visible text` is not stated) and set-animation of elements with a non-zero begin (known "
  "finding of C02) are not generated; rubies with parts that are not presented (own timing, no content, another region) are: the text of "
  "the parts that are presented is required",
]

FUNCTIONS_B = ["ttconv.srt.writer:from_model", "ttconv.srt.writer:SrtContext.append_element", "ttconv.srt.writer:SrtContext.add_isd",
               "ttconv.srt.writer:SrtContext.finish", "ttconv.vtt.writer:from_model", "ttconv.vtt.writer:VttContext.process_inline_element",
               "ttconv.vtt.writer:VttContext.process_p", "ttconv.vtt.writer:VttContext.add_isd", "ttconv.vtt.writer:VttContext.finish",
               "ttconv.filters.isd.merge_regions:RegionsMergingISDFilter.process",
               "ttconv.filters.isd.merge_paragraphs:ParagraphsMergingISDFilter.process",
               "ttconv.filters.isd.merge_paragraphs:ParagraphsMergingISDFilter._get_paragraphs",
               "ttconv.srt.paragraph:SrtParagraph.normalize_eol", "ttconv.srt.paragraph:SrtParagraph.is_only_whitespace",
               "ttconv.vtt.cue:VttCue.normalize_eol", "ttconv.vtt.cue:VttCue.is_only_whitespace_or_empty", "ttconv.isd:ISD.generate_isd_sequence"]


def all_harnesses(tier):
  return [to_string_harness("srt", "times"), to_string_harness("vtt", "times")]


def check(tier, seed, only=None, skip_a=False, skip_b=False):
  hs = all_harnesses(tier)
  if only:
    hs = [h for h in hs if only in h.name]
  for h in hs:
    h.budget_s = 60.0 if tier == "quick" else 300.0
  cov, findings, undecided, errors = ({}, [], [], [])
  if not skip_a:
    cov, findings, undecided, errors = framework.run_tier_a(PROP, hs)
  cov["trusted_base"] = ASSUMPTIONS
  cov["explanation"] = ("Proved (all rational times below 2^22 s): the times SrtParagraph / VttCue write are the interval bounds rounded to the "
                        "nearest millisecond.  Bounded (generated documents: 0-3 simultaneously active regions, several div/p per region, nested "
                        "div, nested spans, br, ruby, xml:space both, sub-millisecond and unbounded intervals, markup-significant text x SRT "
                        "text_formatting on/off and WebVTT line_position x text_align x cue_id): cue intervals and tag-stripped payload equal "
                        "the reference flattening (no visible character dropped, invented, repeated or reordered, no cue without visible "
                        "text), the writers return; default end = begin + 10 s over a grid of begin times.  Not decided by proof: the merge "
                        "filters and the tree walk (heap + strings) -- bounded only.")
  if not skip_b:
    from pyvc import loader
    data, errs = framework.run_tier_b("c06", tier, seed)
    errors += errs
    fns = cov.setdefault("functions_under_contract", [])
    for fn in FUNCTIONS_B:
      try:
        loc = loader.locate(fn)
        if loc not in fns:
          fns.append(loc)
      except Exception as e:  # pylint: disable=broad-except
        undecided.append(f"obligation={fn} reason=function-not-found:{e}")
    if data:
      findings += framework.findings_from_rtc(data)
      for k in ("evaluations", "distinct_nontrivial", "rule", "bounded_scope", "per_contract"):
        cov[k] = data.get(k)
      cov["bounded_exhaustive"] = data.get("exhaustive")
      cov["bounded_samples"] = data.get("samples", [])[:6]
  return framework.Outcome(PROP, tier, seed, "other", cov, ASSUMPTIONS, findings, undecided, errors, 0.0)
