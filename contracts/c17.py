"""C17 -- every 16-bit CEA-608 word is decoded totally, unambiguously and per the standard.

The input domain is finite (65,536 words x 2 show_channel values x 3 channel states), so the contracts on the real
SccWord / code tables / disassembly / SccLine.process functions are decided by evaluating them on EVERY element of the domain
against the independent bit-field oracle specs/cea608.py (complete for the domain; `exhaustive: true`).  This is the
run-time-contract tier; no symbolic obligations are generated for this property (table-driven enum/dict code is outside the
symbolic fragment of pyvc, and a finite domain is decided completely by enumeration)."""
import framework

PROP = "C17"
ASSUMPTIONS = [
  "A-SPEC: specs/cea608.py is my reading of CEA-608 / 47 CFR 15.119 (bit fields and ranges); glyphs that CEA-608 names without "
  "fixing a code point accept a stated set (em dash, bars, box corners, caret incl. U+028C, solid block, green as #00FF00 or #008000)",
  "an indent PAC may report colour None (decoder default, white) instead of white",
  "line disassembly: all 65,536 single-word lines; lines of 2-4 words only over representative words per class",
  "decoder calls observed through a recording stand-in for SccContext (SccLine.process is the real code)",
]
FUNCTIONS = ["ttconv.scc.word:SccWord.from_value", "ttconv.scc.word:SccWord.from_bytes", "ttconv.scc.word:SccWord.from_str",
             "ttconv.scc.word:SccWord._find_code", "ttconv.scc.word:SccWord.get_channel", "ttconv.scc.word:SccWord.to_text",
             "ttconv.scc.codes.preambles_address_codes:SccPreambleAddressCode.find",
             "ttconv.scc.codes.preambles_address_codes:SccPreambleAddressCode._get_row",
             "ttconv.scc.codes.control_codes:SccControlCode.find", "ttconv.scc.codes.attribute_codes:SccAttributeCode.find",
             "ttconv.scc.codes.mid_row_codes:SccMidRowCode.find", "ttconv.scc.codes.special_characters:SccSpecialCharacter.find",
             "ttconv.scc.codes.extended_characters:SccExtendedCharacter.find", "ttconv.scc.disassembly:get_scc_word_disassembly",
             "ttconv.scc.line:SccLine.to_disassembly", "ttconv.scc.line:SccLine.process"]


def check(tier, seed, only=None, skip_a=False, skip_b=False):
  from pyvc import loader
  data, errors = framework.run_tier_b("c17", tier, seed)
  findings, undecided = [], []
  cov = {"functions_under_contract": []}
  for fn in FUNCTIONS:
    try:
      cov["functions_under_contract"].append(loader.locate(fn))
    except Exception as e:  # pylint: disable=broad-except
      undecided.append(f"obligation={fn} reason=function-not-found:{e}")
  if data:
    findings = framework.findings_from_rtc(data)
    for k in ("evaluations", "distinct_nontrivial", "rule", "bounded_scope", "exhaustive", "samples", "per_contract"):
      cov[k] = data.get(k)
    if not data.get("exhaustive"):
      errors.append("the domain was not enumerated completely")
  cov["explanation"] = ("Run-time contracts against an independent CEA-608 oracle evaluated on every one of the 65,536 words (finite "
                        "domain, complete): classification, uniqueness of the table lookup, parity independence, channel/field "
                        "attribution, PAC / mid-row / attribute decoding, all character tables, non-empty disassembly, channel filter of "
                        "SccLine.process.  No symbolic (Tier A) obligations for this property; nothing is counted as proved by SMT.")
  cov["trusted_base"] = ASSUMPTIONS
  return framework.Outcome(PROP, tier, seed, "exploration", cov, ASSUMPTIONS, findings, undecided, errors, 0.0)
