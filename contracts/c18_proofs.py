"""Proof tier of C18: `no exception` as a contract on the real readers' numeric kernels, on snapshot generation and on the three
writers, for ALL values of the time fields / ALL rational timings, on a stated list of file and document shapes.

How `never raises` becomes an obligation: the real function is executed symbolically (pyvc); every exception that leaves it on
a feasible path is recorded by core.call_real as a FAILED obligation `raises/<type>` with the path condition's model as the
failing input; a path that completes records the obligation `<stage>/no-exception` (decided by the path exploration itself --
the feasibility of each path is an SMT query, the obligation has no further formula).  So `all obligations discharged` means:
on every feasible path, for all values of the symbols, the stage returned.

  * srt-file / vtt-file: the real reader on a one-cue file whose timing line is matched by a stub regular expression with
    symbolic digit groups (A-RE: every digit string the real sub-pattern can spell); then ISD.generate_isd_sequence and every
    writer on the document it returned -- includes end <= begin, 999 hours, equal times.
  * intervals: two paragraphs with symbolic rational begin/end (so: intervals shorter than a millisecond or a frame, touching,
    inverted, overlapping), through ISD.generate_isd_sequence and the SRT / WebVTT / IMSC writers (clock_time, frames @25,
    clock_time_with_frames @30).
  * ruby shapes (specs/isd_shapes.py `rubyparts`, `ruby`): ruby containers whose parts have their own symbolic begin/end (an
    annotation that is temporarily inactive), through ISD.from_model at a symbolic t, ISD.significant_times,
    ISD.generate_isd_sequence and the SRT / WebVTT writers.
"""
from __future__ import annotations

import io
from fractions import Fraction

from pyvc import core, modular, restub
from contracts import callee
from pyvc.core import assume, prove, sym_frac
from pyvc.harness import Harness
from specs.isd_shapes import SHAPES, MASKS

import ttconv.model as m
import ttconv.srt.reader as srt_reader
import ttconv.vtt.reader as vtt_reader
import ttconv.srt.writer as srt_writer
import ttconv.vtt.writer as vtt_writer
import ttconv.imsc.writer as imsc_writer
from ttconv.imsc.config import IMSCWriterConfiguration, TimeExpressionSyntaxEnum
from ttconv.vtt.config import VTTWriterConfiguration
from ttconv.srt.config import SRTWriterConfiguration
from ttconv.isd import ISD

BOUND = 2 ** 22
PH = "@@TIMING-LINE@@"


def _ok(stage):
  prove(True, f"{stage}/no-exception", kind="raises")


IMSC_CFGS = {
  "clock_time": lambda: IMSCWriterConfiguration(time_format=TimeExpressionSyntaxEnum.clock_time),
  "frames@25": lambda: IMSCWriterConfiguration(time_format=TimeExpressionSyntaxEnum.frames, fps=Fraction(25)),
  "clock_time_with_frames@30": lambda: IMSCWriterConfiguration(time_format=TimeExpressionSyntaxEnum.clock_time_with_frames, fps=Fraction(30)),
}


def _write_all(doc, which):
  if "srt" in which:
    core.call_real(srt_writer.from_model, doc, None, allowed=())
    _ok("srt.writer.from_model")
  if "srt-fmt" in which:
    core.call_real(srt_writer.from_model, doc, SRTWriterConfiguration(text_formatting=False), allowed=())
    _ok("srt.writer.from_model(text_formatting=False)")
  if "vtt" in which:
    core.call_real(vtt_writer.from_model, doc, None, allowed=())
    _ok("vtt.writer.from_model")
  if "vtt-line" in which:
    core.call_real(vtt_writer.from_model, doc, VTTWriterConfiguration(line_position=True, cue_id=False), allowed=())
    _ok("vtt.writer.from_model(line_position)")
  for name, mk in IMSC_CFGS.items():
    if "imsc:" + name in which:
      core.call_real(imsc_writer.from_model, doc, mk(), allowed=())
      _ok(f"imsc.writer.from_model({name})")


def h_srt_file(which, label):
  def run(ctx):
    real = srt_reader.__dict__["_TIMECODE_RE"]
    real = getattr(real, "_real", real)
    groups, _info = restub.symbolic_groups(real)
    srt_reader.__dict__["_TIMECODE_RE"] = restub.StubRegex(real, {PH: groups})
    try:
      st, doc = core.call_real(srt_reader.to_model, io.StringIO(f"1\n{PH}\nHello <b>bold</b>\nsecond line\n\n"), allowed=())
    finally:
      srt_reader.__dict__["_TIMECODE_RE"] = real
    _ok("srt.reader.to_model")
    prove(doc is not None, "srt.reader.to_model/returns-a-document")
    core.call_real(ISD.generate_isd_sequence, doc, allowed=())
    _ok("ISD.generate_isd_sequence")
    _write_all(doc, which)
  return Harness(f"pipeline[srt-file -> {label}]", run, ["ttconv.srt.reader:to_model", "ttconv.isd:ISD.generate_isd_sequence", "ttconv.isd:ISD.significant_times",
                                                        "ttconv.srt.writer:from_model", "ttconv.vtt.writer:from_model", "ttconv.imsc.writer:from_model"],
                 "replayers.c18p:srt_file", {"which": sorted(which)},
                 "a one-cue SRT file with ANY digits in its eight time fields is read, snapshotted and written without exception")


def h_vtt_file(which, label, with_hours):
  def run(ctx):
    real = vtt_reader.__dict__["_VTT_TS_RE"]
    real = getattr(real, "_real", real)
    g1, _ = restub.symbolic_groups(real, prefix="b_", absent=() if with_hours else ("hh",))
    g2, _ = restub.symbolic_groups(real, prefix="e_", absent=() if with_hours else ("hh",))
    vtt_reader.__dict__["_VTT_TS_RE"] = restub.StubRegex(real, {"@@B@@": g1, "@@E@@": g2})
    try:
      st, doc = core.call_real(vtt_reader.to_model, io.StringIO("WEBVTT\n\n@@B@@ --> @@E@@\nHello <i>there</i>\nsecond line\n\n"), allowed=())
    finally:
      vtt_reader.__dict__["_VTT_TS_RE"] = real
    _ok("vtt.reader.to_model")
    prove(doc is not None, "vtt.reader.to_model/returns-a-document")
    core.call_real(ISD.generate_isd_sequence, doc, allowed=())
    _ok("ISD.generate_isd_sequence")
    _write_all(doc, which)
  return Harness(f"pipeline[vtt-file({'hh:mm:ss.ttt' if with_hours else 'mm:ss.ttt'}) -> {label}]", run,
                 ["ttconv.vtt.reader:to_model", "ttconv.vtt.reader:vtt_timestamp_to_secs", "ttconv.isd:ISD.generate_isd_sequence",
                  "ttconv.srt.writer:from_model", "ttconv.vtt.writer:from_model", "ttconv.imsc.writer:from_model"],
                 "replayers.c18p:vtt_file", {"which": sorted(which), "with_hours": with_hours},
                 "a one-cue WebVTT file with ANY digits in its time fields is read, snapshotted and written without exception")


from contracts_native import two_paragraphs


def h_intervals(which, label, second):
  """second: None (second paragraph untimed) | "fixed" (second paragraph [1, 2)) | "touching" (second paragraph begins where the first ends)"""
  def run(ctx):
    v = {}
    for n in ["b1", "e1"] + (["e2"] if second == "touching" else []):
      v[n] = sym_frac(n)
      assume(v[n] >= 0)
      assume(v[n] < BOUND)
    b2, e2 = {None: (None, None), "fixed": (Fraction(1), Fraction(2)), "touching": (v["e1"], v.get("e2"))}[second]
    doc = two_paragraphs(v["b1"], v["e1"], b2, e2)
    core.call_real(ISD.generate_isd_sequence, doc, allowed=())
    _ok("ISD.generate_isd_sequence")
    _write_all(doc, which)
  return Harness(f"writers[p1 [b1,e1) symbolic, p2 {second or 'untimed'} -> {label}]", run,
                 ["ttconv.isd:ISD.generate_isd_sequence", "ttconv.srt.writer:from_model", "ttconv.srt.writer:SrtContext.add_isd",
                  "ttconv.srt.writer:SrtContext.finish", "ttconv.srt.paragraph:SrtParagraph.to_string", "ttconv.vtt.writer:from_model",
                  "ttconv.vtt.writer:VttContext.add_isd", "ttconv.vtt.writer:VttContext.finish", "ttconv.vtt.cue:VttCue.to_string",
                  "ttconv.imsc.writer:from_model", "ttconv.imsc.attributes:to_time_format"],
                 "replayers.c18p:intervals", {"which": sorted(which), "second": second},
                 "intervals of any length (shorter than the output's time resolution, touching, inverted, overlapping) are written without exception")


def h_ruby(shape, mask, which, label):
  def run(ctx):
    vals = {}

    def v(name):
      if name not in mask:
        return None
      if name not in vals:
        x = sym_frac(name)
        assume(x >= 0)
        assume(x < BOUND)
        vals[name] = x
      return vals[name]

    doc = SHAPES[shape](v)
    if which:
      _write_all(doc, which)
      return
    t = sym_frac("t")
    assume(t >= 0)
    core.call_real(ISD.from_model, doc, t, allowed=())
    _ok("ISD.from_model")
    st, sig = core.call_real(ISD.significant_times, doc, allowed=())
    _ok("ISD.significant_times")
    core.call_real(ISD.from_model, doc, t, sig, allowed=())
    _ok("ISD.from_model(with significant times)")
    core.call_real(ISD.generate_isd_sequence, doc, allowed=())
    _ok("ISD.generate_isd_sequence")
  return Harness(f"ruby[{shape}:{'+'.join(mask)} -> {label}]", run,
                 ["ttconv.isd:ISD.from_model", "ttconv.isd:ISD._process_element", "ttconv.isd:ISD.significant_times",
                  "ttconv.isd:_clone_doc_with_one_region", "ttconv.isd:ISD.generate_isd_sequence", "ttconv.srt.writer:from_model", "ttconv.vtt.writer:from_model"],
                 "replayers.c18p:ruby", {"shape": shape, "mask": list(mask), "which": sorted(which)},
                 "a ruby whose parts are temporarily inactive (all rational timings, all query times) is snapshotted and written without exception")


RUBY_WRITER_MASKS = [("rtb", "rte"), ("rbb", "rte"), ("rt2b", "rt2e"), ("rtcb", "rp1e")]


def _modular(h):
  """the writers call ClockTime.from_seconds: checked against its contract (contracts/callee.py), which the ClockTime harnesses of
  this same check discharge for the real body"""
  run = h.run

  def run2(ctx):
    with modular.contracts(callee.CLOCKTIME):
      return run(ctx)
  h.run = run2
  return h


def all_harnesses(tier):
  from contracts.c12 import clock_harnesses
  hs = [h for h in clock_harnesses() if h.name.startswith("ClockTime.from_seconds")]
  return hs + [_modular(h) for h in _callers(tier)]


def _callers(tier):
  hs = []
  text = {"srt", "vtt"}
  imsc = {"imsc:" + k for k in IMSC_CFGS}
  writers = ["srt", "srt-fmt", "vtt", "vtt-line"] + sorted(imsc)
  for w in writers:
    hs.append(h_srt_file({w}, w))
  for with_hours in (True, False):
    for w in writers:
      hs.append(h_vtt_file({w}, w, with_hours))
  for second in (None, "fixed") + (("touching",) if tier != "quick" else ()):
    hs.append(h_intervals({"srt"}, "srt", second))
    hs.append(h_intervals({"vtt"}, "vtt", second))
  hs.append(h_intervals({"srt-fmt"}, "srt(text_formatting off)", None))
  hs.append(h_intervals({"vtt-line"}, "vtt(line_position)", None))
  for k in IMSC_CFGS:
    hs.append(h_intervals({"imsc:" + k}, "imsc " + k, "fixed"))
  for mask in MASKS["rubyparts"]:
    hs.append(h_ruby("rubyparts", mask, (), "snapshots"))
  for mask in MASKS["ruby"][:2]:
    hs.append(h_ruby("ruby", mask, (), "snapshots"))
  for mask in RUBY_WRITER_MASKS[:2 if tier == "quick" else None]:
    hs.append(h_ruby("rubyparts", mask, {"srt"}, "srt"))
    hs.append(h_ruby("rubyparts", mask, {"vtt"}, "vtt"))
  return hs
