#!/usr/bin/env python
"""Native replay of a counter-example on the real, untouched ttconv code (run under /venv/bin/python).

  replay.py <replay-file.json>             re-run the input recorded in a replay file against the current tree
  replay.py --call <module:function> <json-args>     (used by the checks themselves)

exit 1: the violation is reproduced on the real code; exit 0: not reproduced; exit 2: the replayer could not run.
"""
import importlib
import json
import os
import sys

VERIF = os.path.dirname(os.path.abspath(__file__))
sys.path.insert(0, VERIF)
REPO = os.environ.get("TTCONV_REPO", "/repo")
sys.path.insert(0, os.path.join(REPO, "src", "main", "python"))
sys.dont_write_bytecode = True


def call(target, args):
  mod, _, fn = target.partition(":")
  f = getattr(importlib.import_module(mod), fn)
  reproduced, text = f(**args)
  print(text)
  return 1 if reproduced else 0


def main(argv):
  if len(argv) >= 3 and argv[0] == "--call":
    try:
      return call(argv[1], json.loads(argv[2]))
    except Exception as e:  # pylint: disable=broad-except
      import traceback
      traceback.print_exc()
      print(f"replayer failed: {e!r}")
      return 2
  if len(argv) != 1:
    print(__doc__)
    return 2
  data = json.load(open(argv[0], encoding="utf-8"))
  print(f"property {data.get('property')}  finding {data.get('finding')}")
  print(f"summary: {data.get('summary')}")
  target = data.get("replayer")
  if not target:
    print("no native replayer is attached to this finding; solver output follows")
    print(data.get("solver_output"))
    return 2
  args = dict(data.get("replay_args") or {})
  if data.get("tier") == "A":
    args["model"] = data.get("model") or {}
    args["obligation"] = data.get("obligation")
  return call(target, args)


if __name__ == "__main__":
  sys.exit(main(sys.argv[1:]))
