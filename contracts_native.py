"""Document builders shared by the proof harnesses (which import them under the rewritten modules) and the native replayers."""
import ttconv.model as m


def two_paragraphs(b1, e1, b2, e2):
  d = m.ContentDocument()
  r = m.Region("r1", d); d.put_region(r)
  body = m.Body(d); d.set_body(body)
  div = m.Div(d); body.push_child(div)
  p = m.P(d); p.set_id("p1"); p.set_region(r); p.set_begin(b1); p.set_end(e1); div.push_child(p)
  s = m.Span(d); p.push_child(s); s.push_child(m.Text(d, "Hello"))
  p2 = m.P(d); p2.set_id("p2"); p2.set_region(r); p2.set_begin(b2); p2.set_end(e2); div.push_child(p2)
  s2 = m.Span(d); p2.push_child(s2); s2.push_child(m.Text(d, "World"))
  return d
