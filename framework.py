"""Glue between the verifier (pyvc), the bounded run-time-contract harness (rtc) and the interface required by MANIFEST:
evidence files, replay files, known findings, VIOLATION lines and exit codes.

exit codes: 0 held / 1 violation (stdout line `VIOLATION property=<id> replay=<path>`) / 2 undecided / 3 checker error.
Only 0 and 1 are verdicts about ttconv; `unknown`, time-outs and crashes of the machinery are never reported as violations.
"""
from __future__ import annotations

import fnmatch
import hashlib
import json
import os
import re
import subprocess
import sys
import time
from dataclasses import dataclass, field
from typing import List, Optional

VERIF = os.path.dirname(os.path.abspath(__file__))
REPO = os.environ.get("TTCONV_REPO", "/repo")
VENV_PY = os.environ.get("TTCONV_PY", "/venv/bin/python")
KNOWN_FILE = os.path.join(VERIF, "known_findings.txt")


# ---------------------------------------------------------------------------------------------------------------------
# known findings


@dataclass
class Known:
  prop: str
  pattern: str        # glob over the finding key (obligation name or rtc finding key)
  what: str


def glob_match(text: str, pattern: str) -> bool:
  """`*` is the only wildcard (finding keys contain brackets, which fnmatch would read as character classes)"""
  rx = ".*".join(re.escape(part) for part in pattern.split("*"))
  return re.fullmatch(rx, text, flags=re.S) is not None


def load_known(prop: str) -> List[Known]:
  out = []
  if not os.path.isfile(KNOWN_FILE):
    return out
  for line in open(KNOWN_FILE, encoding="utf-8"):
    line = line.strip()
    if not line.startswith("known:"):
      continue
    m = re.match(r"known:\s+property=(\S+)\s+key=(\S+)\s+(.*)$", line)
    if m and m.group(1) == prop:
      out.append(Known(m.group(1), m.group(2), m.group(3)))
  return out


# ---------------------------------------------------------------------------------------------------------------------


@dataclass
class Finding:
  key: str                    # stable identifier: obligation name or bounded-contract key incl. witness class
  tier: str                   # "A" (refuted obligation) or "B" (run-time contract failed)
  summary: str
  replay: dict = field(default_factory=dict)     # content of the replay file
  reproduced: Optional[bool] = None             # native reproduction status
  solver_output: str = ""


def write_replay(prop: str, f: Finding) -> str:
  d = os.path.join(VERIF, "replay", prop)
  os.makedirs(d, exist_ok=True)
  safe = re.sub(r"[^A-Za-z0-9_.@-]+", "_", f.key)[:150]
  path = os.path.join(d, safe + ".json")
  data = dict(f.replay)
  data.update({"property": prop, "finding": f.key, "tier": f.tier, "summary": f.summary,
               "reproduced_natively": f.reproduced, "solver_output": f.solver_output})
  with open(path, "w", encoding="utf-8") as fh:
    json.dump(data, fh, indent=1, default=str)
  return path


def native_replay(replayer: str, args: dict, timeout: int = 120):
  """Run `replayers.<mod>:<fn>(**args)` on the real, untouched code under the interpreter the test-suite uses.
  -> (reproduced: bool|None, text)"""
  env = dict(os.environ)
  env["PYTHONPATH"] = VERIF + os.pathsep + os.path.join(REPO, "src", "main", "python")
  env["PYTHONDONTWRITEBYTECODE"] = "1"
  try:
    p = subprocess.run([VENV_PY, os.path.join(VERIF, "replay.py"), "--call", replayer, json.dumps(args, default=str)],
                       capture_output=True, text=True, timeout=timeout, env=env, cwd=VERIF)
  except subprocess.TimeoutExpired:
    return None, "replay timed out"
  out = (p.stdout + p.stderr).strip()
  if p.returncode == 1:
    return True, out
  if p.returncode == 0:
    return False, out
  return None, out


# ---------------------------------------------------------------------------------------------------------------------


@dataclass
class Outcome:
  prop: str
  tier: str
  seed: int
  level: str
  coverage: dict
  assumptions: List[str]
  findings: List[Finding]
  undecided: List[str]
  checker_errors: List[str]
  wall_s: float


def finish(o: Outcome) -> int:
  """Write evidence, replay files and the required stdout lines; return the exit code."""
  known = load_known(o.prop)
  violations = []
  known_hits = []
  for f in o.findings:
    k = next((k for k in known if glob_match(f.key, k.pattern)), None)
    if k is not None:
      known_hits.append((f, k))
    else:
      violations.append(f)
  lines = []
  per_entry = {}
  for f, k in known_hits:
    per_entry.setdefault(k.pattern, [k, 0])[1] += 1
  for pat, (k, n) in per_entry.items():
    lines.append(f"KNOWN-FINDING: property={o.prop} key={pat} ({n} failing instance{'s' if n != 1 else ''}) {k.what}")
  replay_paths = []
  rdir = os.path.join(VERIF, "replay", o.prop)
  if os.path.isdir(rdir):
    for fn in os.listdir(rdir):
      if fn.endswith(".json"):
        os.unlink(os.path.join(rdir, fn))
  for f in violations:
    path = write_replay(o.prop, f)
    replay_paths.append(path)
    suffix = "" if f.reproduced else " no-failing-input-found"
    lines.append(f"VIOLATION property={o.prop} replay={path}{suffix}")
  cov = dict(o.coverage)
  cov["known_findings_matched"] = [f.key for f, _ in known_hits]
  cov["undecided"] = o.undecided
  cov["checker_errors"] = o.checker_errors
  ev = {"property_id": o.prop, "tier": o.tier, "seed": o.seed, "level": o.level, "coverage": cov,
        "assumptions": o.assumptions, "wall_s": round(o.wall_s, 2), "violations": len(violations)}
  # evidence describes /repo; a development run against a scratch copy (TTCONV_REPO) must not overwrite it
  evdir = os.path.join(VERIF, "evidence") if os.path.realpath(REPO) == "/repo" else os.path.join(VERIF, "replay", "_scratch-evidence")
  os.makedirs(evdir, exist_ok=True)
  with open(os.path.join(evdir, o.prop + ".json"), "w", encoding="utf-8") as fh:
    json.dump(ev, fh, indent=1, default=str)
  for ln in lines:
    print(ln)
  if violations:
    code = 1
  elif o.checker_errors:
    for e in o.checker_errors[:20]:
      print(f"CHECKER-ERROR property={o.prop} {e}")
    code = 3
  elif o.undecided:
    for u in o.undecided[:20]:
      print(f"UNDECIDED property={o.prop} {u}")
    code = 2
  else:
    code = 0
  print(f"{o.prop} {o.tier}: exit {code}; obligations {cov.get('obligations', 0)} discharged {cov.get('discharged', 0)}; "
        f"bounded evaluations {cov.get('evaluations', 0)}; known findings {len(known_hits)}; violations {len(violations)}; "
        f"undecided {len(o.undecided)}; {o.wall_s:.1f}s")
  return code


# ---------------------------------------------------------------------------------------------------------------------
# Tier A driver


def _start_rewrite_crosscheck():
  """CPython cross-check of the mechanical rewriting (tools/xcheck_rewrite.py): the repository's unit tests are run on the
  rewritten modules and, as reference, on the untouched modules under the same interpreter; the sets of failing tests must agree."""
  env = dict(os.environ)
  env["PYTHONDONTWRITEBYTECODE"] = "1"
  script = os.path.join(VERIF, "tools", "xcheck_rewrite.py")
  return [subprocess.Popen([sys.executable, script] + extra, stdout=subprocess.PIPE, stderr=subprocess.DEVNULL, text=True, env=env)
          for extra in ([], ["--plain"])]


def _finish_rewrite_crosscheck(procs):
  res = []
  for p in procs:
    try:
      out, _ = p.communicate(timeout=600)
    except subprocess.TimeoutExpired:
      p.kill()
      return {"status": "timeout"}
    failing, summary = None, ""
    for ln in out.splitlines():
      if ln.startswith("FAILING "):
        failing = set(json.loads(ln[8:]))
      elif ln.startswith("tests run"):
        summary = ln
    res.append((failing, summary))
  (fa, sa), (fb, sb) = res
  if fa is None or fb is None:
    return {"status": "not-run", "rewritten": sa, "untouched": sb}
  return {"status": "ok" if fa == fb else "differs", "rewritten": sa, "untouched": sb, "differs": sorted(fa ^ fb)}


def run_tier_a(prop: str, harnesses, jobs: int = 0):
  """-> (coverage dict, findings, undecided, checker_errors)"""
  from pyvc import harness as H, loader
  t0 = time.time()
  xc = _start_rewrite_crosscheck()
  reports = H.run_all(harnesses, jobs)
  findings, undecided, errors = [], [], []
  known = load_known(prop)
  replayed, reproduced_base = {}, {}
  n_ob = n_dis = 0
  by_backend = {}
  solver_time = 0.0
  samples = []
  functions = {}
  cover_total = cover_ok = 0
  for rep in reports:
    if os.environ.get("PYVC_VERBOSE"):
      slow = sorted(rep.verdicts, key=lambda v: -v.time_s)[:2]
      print(f"[pyvc] {rep.name}: paths {rep.paths} explore {rep.explore_s:.1f}s obligations {len(rep.verdicts)} "
            f"slowest {[(v.name.split('/')[-1], v.status, v.backend, round(v.time_s, 1)) for v in slow]}", file=sys.stderr)
    for fn in rep.functions:
      if fn not in functions:
        try:
          functions[fn] = loader.locate(fn)
        except Exception as e:   # function no longer present: the contract does not bind any more
          undecided.append(f"obligation={rep.name} reason=function-not-found:{fn}:{e}")
    for e in rep.errors:
      errors.append(f"harness={rep.name} crashed: {e.strip().splitlines()[-1] if e.strip() else e}")
    for u in rep.unsupported:
      undecided.append(f"obligation={rep.name} reason=unsupported:{u}")
    reach = 0
    for v in rep.verdicts:
      solver_time += v.time_s
      if v.kind == "cover":
        cover_total += 1
        if v.status == "reachable":
          reach += 1
          cover_ok += 1
        elif v.status == "vacuous":
          pass    # an infeasible path end is fine as long as some path of the harness is reachable
        continue
      n_ob += 1
      by_backend[v.backend or "none"] = by_backend.get(v.backend or "none", 0) + (1 if v.status == "proved" else 0)
      if v.status == "proved":
        n_dis += 1
      elif v.status == "refuted":
        f = Finding(key=v.name, tier="A", summary=f"obligation {v.name} refuted by {v.backend}; model {v.model}",
                    replay={"obligation": v.name, "kind": v.kind, "harness": rep.name, "clause": rep.clause, "model": v.model,
                            "replayer": rep.replayer, "replay_args": rep.replay_args,
                            "functions": [functions.get(fn, fn) for fn in rep.functions]},
                    solver_output=f"{v.backend}: sat; model={v.model}; {v.reason}")
        base = re.sub(r"\[path[0-9]+\]$", "", v.name)
        is_known = any(glob_match(v.name, k.pattern) for k in known)
        if rep.replayer and not is_known and replayed.get(base, 0) < 1 and len(replayed) < 12:
          # one native replay per failing obligation (its other paths carry the solver's model only)
          replayed[base] = replayed.get(base, 0) + 1
          args = dict(rep.replay_args)
          args["model"] = v.model
          args["obligation"] = v.name
          ok, text = native_replay(rep.replayer, args)
          f.reproduced = bool(ok)
          f.replay["native_output"] = text
          reproduced_base[base] = f.reproduced
        elif base in reproduced_base:
          f.reproduced = reproduced_base[base]
          f.replay["native_output"] = "same obligation as an already replayed path; see that replay file"
        findings.append(f)
      else:
        undecided.append(f"obligation={v.name} reason=solver-unknown:{v.reason[:200]}")
      if len(samples) < 12 and v.status == "proved" and v.backend != "z3-simplify":
        samples.append({"obligation": v.name, "kind": v.kind, "status": v.status, "backend": v.backend,
                        "time_s": round(v.time_s, 3), "smt2_bytes": v.size})
    if not rep.errors and rep.ok_paths and reach < 1:
      errors.append(f"harness={rep.name} vacuous: no path end is satisfiable ({rep.paths} paths)")
  # one finding per failing obligation: its other failing paths are listed in the same replay file
  grouped = {}
  for f in findings:
    base = re.sub(r"\[path[0-9]+\]$", "", f.key)
    g = grouped.get(base)
    if g is None:
      grouped[base] = f
      f.replay["failing_paths"] = [f.key]
    else:
      g.replay["failing_paths"].append(f.key)
      if len(g.replay.setdefault("other_models", [])) < 5:
        g.replay["other_models"].append(f.replay.get("model"))
      if f.reproduced and not g.reproduced:
        f.replay["failing_paths"] = g.replay["failing_paths"]
        f.replay["other_models"] = g.replay.get("other_models", [])
        grouped[base] = f
  findings = list(grouped.values())
  if n_ob == 0 and not errors:
    errors.append("zero obligations generated")
  xres = _finish_rewrite_crosscheck(xc)
  if xres.get("differs"):
    errors.append(f"rewrite cross-check: tests behave differently on the rewritten modules: {xres['differs'][:5]}")
  cov = {
    "obligations": n_ob, "discharged": n_dis,
    "checker_cmd": f"python3-vt {VERIF}/check.py {prop} (pyvc: real source of /repo re-read, rewritten mechanically and executed symbolically; VCs by z3 5.1 / cvc5 1.4)",
    "functions_under_contract": list(functions.values()),
    "harnesses": len(reports), "paths": sum(r.paths for r in reports),
    "by_backend": by_backend, "solver_time_s": round(solver_time, 2), "explore_time_s": round(sum(r.explore_s for r in reports), 2),
    "reachability_probes": cover_total, "reachable": cover_ok,
    "samples": samples, "rewrites_applied_to_source": loader.REWRITES, "rewrite_crosscheck": xres,
    "tier_a_wall_s": round(time.time() - t0, 2),
    "assume_statements_in_harnesses": scan_assumes(harnesses),
  }
  return cov, findings, undecided, errors


def scan_assumes(harnesses):
  """mechanical scan (AST) of the modules that define the harnesses, plus contracts/callee.py, for `assume(...)` calls: every one is a
  precondition / a restriction of the quantifier domain that the verifier does not check; listed so that none goes unreported"""
  import ast
  files = {os.path.join(VERIF, "contracts", "callee.py"), os.path.join(VERIF, "pyvc", "restub.py")}
  for h in harnesses:
    code = getattr(h.run, "__code__", None)
    if code is not None and code.co_filename.startswith(VERIF):
      files.add(code.co_filename)
  out = []
  for fn in sorted(files):
    try:
      src = open(fn, encoding="utf-8").read()
      tree = ast.parse(src)
    except (OSError, SyntaxError):
      continue
    lines = src.splitlines()
    for node in ast.walk(tree):
      if isinstance(node, ast.Call):
        f = node.func
        name = f.id if isinstance(f, ast.Name) else f.attr if isinstance(f, ast.Attribute) else None
        if name == "assume":
          out.append(f"{os.path.relpath(fn, VERIF)}:{node.lineno}: {lines[node.lineno - 1].strip()[:160]}")
  return {"count": len(out), "statements": sorted(out)[:400]}


# ---------------------------------------------------------------------------------------------------------------------
# Tier B driver (bounded run-time contracts; runs under the test-suite interpreter on the untouched code)


def run_tier_b(module: str, tier: str, seed: int, timeout: int = 3600, extra_args=None):
  """Runs `python -m rtc.<module> --tier .. --seed .. --out <json>` under /venv/bin/python.
  The module writes {"evaluations":..,"distinct_nontrivial":..,"rule":..,"samples":[..],"bounded_scope":..,"exhaustive":bool,
  "failures":[{"key":..,"summary":..,"input":..}], "errors":[..]}"""
  out = os.path.join(VERIF, "replay", f".rtc_{module}_{os.getpid()}.json")
  os.makedirs(os.path.dirname(out), exist_ok=True)
  env = dict(os.environ)
  env["PYTHONPATH"] = VERIF + os.pathsep + os.path.join(REPO, "src", "main", "python")
  env["PYTHONDONTWRITEBYTECODE"] = "1"
  env.setdefault("PYTHONHASHSEED", "0")
  cmd = [VENV_PY, "-m", f"rtc.{module}", "--tier", tier, "--seed", str(seed), "--out", out] + list(extra_args or [])
  t0 = time.time()
  try:
    p = subprocess.run(cmd, capture_output=True, text=True, timeout=timeout, env=env, cwd=VERIF)
  except subprocess.TimeoutExpired:
    return None, [f"rtc.{module} timed out after {timeout}s"]
  if not os.path.isfile(out):
    return None, [f"rtc.{module} produced no result (exit {p.returncode}): {(p.stderr or p.stdout)[-800:]}"]
  data = json.load(open(out))
  os.unlink(out)
  data["rtc_wall_s"] = round(time.time() - t0, 2)
  errs = list(data.get("errors", []))
  if p.returncode not in (0, 1):
    errs.append(f"rtc.{module} exit {p.returncode}: {(p.stderr or '')[-500:]}")
  return data, errs


def findings_from_rtc(data) -> List[Finding]:
  out = []
  for f in data.get("failures", []):
    out.append(Finding(key=f["key"], tier="B", summary=f.get("summary", ""), reproduced=True,
                       replay={"contract": f.get("contract"), "input": f.get("input"), "observed": f.get("observed"),
                               "required": f.get("required"), "replayer": f.get("replayer"), "replay_args": f.get("replay_args")}))
  return out
