"""Native replay for the proof tier of C14."""
from fractions import Fraction


def shape(shape, mask, model=None, obligation=None, **_):
  from specs.isd_shapes import SHAPES
  from rtc import isd_props as P
  from ttconv.isd import ISD
  vals = {k: Fraction(str(v).replace(" ", "")) for k, v in (model or {}).items()}
  v = lambda n: (vals.get(n, Fraction(0)) if n in mask else None)   # noqa: E731
  doc = SHAPES[shape](v)
  before = P.fp_doc(doc)
  sig = ISD.significant_times(doc)
  for t in sorted({vals.get("t", Fraction(0))} | set(vals.values())):
    a, b = P.fp_isd(ISD.from_model(doc, t), True), P.fp_isd(ISD.from_model(doc, t, sig), True)
    if a != b:
      return True, f"shape {shape} with {({k: str(x) for k, x in vals.items()})} at t={t}: uncached {a[0]} cached {b[0]}"
  if P.fp_doc(doc) != before:
    return True, "the source document was modified"
  return False, "cached and uncached snapshots agree"
