"""Native replay for C10: re-run one input on the real SRT reader (and writers) and compare with the SubRip oracle."""
import logging

logging.disable(logging.CRITICAL)


def _report(rec, header, key=None):
  """reproduced iff the finding `key` (any finding when no key is given) fails again"""
  if rec.errors:
    raise RuntimeError("; ".join(rec.errors))
  if key is not None and rec.failures and key not in rec.failures:
    return False, header + f"\nfinding {key} is not reproduced; other failed contracts:\n" + \
        "\n".join(f"  [{f['key']}] {f['contract']}: {f['summary']}" for f in rec.failures.values())
  if rec.failures:
    return True, header + "\nfailed contracts:\n" + "\n".join(f"  [{f['key']}] {f['contract']}: {f['summary']}" for f in rec.failures.values())
  return False, header + "\nall contracts hold"


def _describe(text, stream="string"):
  import rtc.c10 as R
  from specs import srt as S
  out = [f"SRT text: {text!r}"]
  try:
    cues = S.parse(text, allow_empty_cues=True)
    out.append("oracle: " + "; ".join(f"[{c.begin} --> {c.end}] {c.text()!r}" for c in cues))
  except S.SrtSyntaxError as e:
    out.append(f"oracle: outside the grammar ({e})")
  try:
    doc = R.read_real(text, stream)
    if doc is None:
      out.append("ttconv.srt.reader.to_model: returned None")
    else:
      out.append("ttconv.srt.reader.to_model: " + "; ".join(
        f"[{p.get_begin()!r} --> {p.get_end()!r}] {R.text_of(R.observe_p(p))!r}" for p in R.paragraphs(doc)))
  except Exception as e:  # pylint: disable=broad-except
    out.append(f"ttconv.srt.reader.to_model raised {type(e).__name__}: {e}")
  return "\n".join(out)


def read(text, stream="string", key=None, **_):
  import rtc.c10 as R
  from rtc.common import Recorder
  rec = Recorder("C10", "", {})
  R.check_text(rec, text, stream, shrink=False)
  return _report(rec, _describe(text, stream), key)


def frames(text, fps, key=None, **_):
  import rtc.c10 as R
  from rtc.common import Recorder
  rec = Recorder("C10", "", {})
  R.check_frames(rec, text, fps)
  head = _describe(text)
  try:
    attrs, _times = R.frames_of(text, R.FPS[fps])
    head += f"\nIMSC writer, frames syntax at {fps} fps: p begin/end = {attrs}"
  except Exception as e:  # pylint: disable=broad-except
    head += f"\nreader -> IMSC writer raised {type(e).__name__}: {e}"
  return _report(rec, head, key)


def roundtrip(spec, key=None, **_):
  import rtc.c10 as R
  from rtc.common import Recorder
  from ttconv.srt import writer
  rec = Recorder("C10", "", {})
  R.check_roundtrip(rec, spec)
  head = f"document (cues as data): {spec!r}"
  try:
    text = writer.from_model(R.build_doc(spec))
    head += "\nsrt.writer.from_model ->\n" + _describe(text)
  except Exception as e:  # pylint: disable=broad-except
    head += f"\nsrt.writer.from_model raised {type(e).__name__}: {e}"
  return _report(rec, head, key)


def safety(kind, text, key=None, **_):
  import rtc.c10 as R
  from rtc.common import Recorder
  rec = Recorder("C10", "", {})
  R.check_safety(rec, kind, text)
  return _report(rec, _describe(text), key)
