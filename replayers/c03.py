"""Native replay for C03: rebuild the recorded document with the model API, take the snapshot with the real
ISD.from_model and compare every element / applicable property with the style-resolution oracle (specs/styles.py)."""
from fractions import Fraction


def element_style(desc, t, key=None, **_):
  import rtc.c03 as _R
  _R.pin_readings()
  if not _R._PINS:     # the same pins as in the run that found the witness: observed on the planned documents of the current tree
    import logging as _l
    _l.disable(_l.CRITICAL)
    _R._PINS.update(_R.pin_from_cases(0, _R.plan("quick", 0)) or {"-": "-"})
  _R.apply_pins(_R._PINS)
  import logging
  logging.disable(logging.CRITICAL)
  import rtc.c03 as R
  from rtc.common import Recorder
  doc = R.build(desc)
  got = []
  info = {"kind": "replay", "mode": "replay", "wm": "*", "cell": desc["cell"], "px": desc["px"]}
  R.check_snapshot(Recorder("C03", "", {}), doc, Fraction(t), desc, info, got)
  lines = [f"document: {R.json.dumps(desc)}", f"t = {t}"]
  for k, rid, eid, name, obs, exp in got:
    if k.startswith("initial-value-not-kept"):
      lines.append(f"[{k}] put_initial_value({name}, {exp}) was called while the document was built; get_initial_value now gives {obs}")
    elif rid is None:
      lines.append(f"[{k}] ISD.from_model raised {obs}; required: {exp}")
    else:
      lines.append(f"[{k}] region {rid!r} element {eid!r} {name}: ttconv computed {R.S.show(obs) if obs is not None else 'nothing'}; "
                   f"TTML style resolution gives {R.S.show(exp) if exp is not None else 'no such style on this kind of element'}")
  hit = [g for g in got if key is None or g[0] == key]
  if not got:
    lines.append("all contracts hold on this document")
  elif not hit:
    lines.append(f"the recorded failure {key!r} is not reproduced (other failures are listed above)")
  return bool(hit), "\n".join(lines)


# ---------------------------------------------------------------------------------------------------------------------
# replays of proof-tier counter-models


def _f(model, name, default=1):
  v = model.get(name)
  return Fraction(str(v).replace(" ", "")) if v is not None else Fraction(default)


def compute_length(unit, model, ref_units=None, missing=False, only=False, none=False, obligation="", **_):
  import ttconv.isd as I
  import ttconv.style_properties as SP
  U = SP.LengthType.Units
  need = {"%": 0, "em": 1, "c": 2, "px": 3}
  src = SP.LengthType(_f(model, "v"), U(unit))
  if none:
    refs = [None] * 4
  elif only:
    refs = [None] * 4
    refs[need[unit]] = SP.LengthType(_f(model, "r"), U.rh)
  else:
    refs = [SP.LengthType(_f(model, n), U(u)) for n, u in zip(("pr", "er", "cr", "xr"), ref_units or ("rw", "rh", "rw", "rh"))]
    if missing:
      refs[need[unit]] = None
  try:
    out = I._compute_length(src, *refs)
  except ValueError as e:
    ok = missing
    return (not ok), f"_compute_length({src}, {refs}) raised ValueError({e}); {'required' if ok else 'not allowed'}"
  if missing:
    return True, f"_compute_length({src}, {refs}) returned {out} although the needed reference is None"
  if unit in need:
    ref = refs[need[unit]]
    want = (src.value * ref.value / 100 if unit == "%" else src.value * ref.value, ref.units)
  else:
    want = (src.value, src.units)
  bad = out.value != want[0] or out.units is not want[1]
  return bad, f"_compute_length({src}, {refs}) = {out}; unit table: {want[0]} {want[1].value}"


_VARS = {
  "FontSize": lambda m, u: ["L", str(_f(m, "v")), u[0]],
  "LineHeight": lambda m, u: ["L", str(_f(m, "v")), u[0]],
  "LinePadding": lambda m, u: ["L", str(_f(m, "v")), u[0]],
  "Disparity": lambda m, u: ["L", str(_f(m, "v")), u[0]],
  "TextOutline": lambda m, u: ["TO", ["L", str(_f(m, "v")), u[0]], None],
  "RubyReserve": lambda m, u: ["RR", "both", ["L", str(_f(m, "v")), u[0]]],
  "TextShadow": lambda m, u: ["TS", [["S", ["L", str(_f(m, "x")), u[0]], ["L", str(_f(m, "y")), u[0]], ["L", str(_f(m, "b")), u[0]], None],
                                     ["S", ["L", str(_f(m, "y")), u[0]], ["L", str(_f(m, "x")), u[0]], None, ["C", [0, 0, 255, 255]]]]],
  "Extent": lambda m, u: ["X", ["L", str(_f(m, "h")), u[0]], ["L", str(_f(m, "w")), u[1]]],
  "Origin": lambda m, u: ["O", ["L", str(_f(m, "x")), u[0]], ["L", str(_f(m, "y")), u[1]]],
  "Padding": lambda m, u: ["D"] + [["L", str(_f(m, n)), u[0]] for n in ("pb", "pe", "pa", "ps")],
}


def _run_desc(desc):
  import logging
  logging.disable(logging.CRITICAL)
  import rtc.c03 as R
  from rtc.common import Recorder
  got = []
  R.check_snapshot(Recorder("C03", "", {}), R.build(desc), Fraction(0), desc,
                   {"kind": "replay", "mode": "replay", "wm": "*", "cell": desc["cell"], "px": desc["px"]}, got)
  lines = [f"document: {R.json.dumps(desc)}"]
  for k, rid, eid, name, obs, exp in got:
    lines.append(f"[{k}] element {eid!r} {name}: ttconv computed {R.S.show(obs) if obs is not None else obs}; "
                 f"TTML style resolution gives {R.S.show(exp) if exp is not None else exp}")
  if not got:
    lines.append("all contracts hold on this document")
  return bool(got), "\n".join(lines)


def processor(processor, unit, cell, px, model, wm=None, obligation="", **_):
  """the counter-model of a processor obligation, replayed through a whole document and ISD.from_model"""
  import rtc.c03 as R
  desc, roles = R.template(1, 1, {"s1"})
  desc["cell"], desc["px"] = list(cell), list(px)
  units = unit.split(" ")
  value = _VARS[processor](model, units)
  on_region = processor in ("Extent", "Origin", "Padding", "Disparity")
  target = roles["Region"] if on_region else (roles["P"] if processor in ("LineHeight", "LinePadding", "RubyReserve", "FontSize") else roles["Span"])
  if "fs" in model:
    R.add_style(target, "FontSize", ["L", str(_f(model, "fs")), "rh"])
  if "pfs" in model:
    R.add_style(roles["Div"], "FontSize", ["L", str(_f(model, "pfs")), "rh"])
  if "eh" in model or "ew" in model:
    R.add_style(roles["Region"], "Extent", ["X", ["L", str(_f(model, "eh", 100)), "rh"], ["L", str(_f(model, "ew", 100)), "rw"]])
  if wm:
    R.add_style(roles["Region"], "WritingMode", ["E", "WritingModeType", wm])
  R.add_style(target, processor, value)
  return _run_desc(desc)


def position(hu, vu, hedge, vedge, cell, px, model, obligation="", **_):
  """the solver's model may sit inside the float error terms (extents of 1e-300): if it does not fail natively, try round values"""
  import rtc.c03 as R
  out = None
  for m in (model, {"eh": 20, "ew": 50, "ho": 10, "vo": 10}, {"eh": "25/2", "ew": "100/3", "ho": 3, "vo": 2}):
    desc, roles = R.template(1, 1, {"s1"})
    desc["cell"], desc["px"] = list(cell), list(px)
    reg = roles["Region"]
    R.add_style(reg, "Extent", ["X", ["L", str(_f(m, "eh", 50)), "rh"], ["L", str(_f(m, "ew", 50)), "rw"]])
    R.add_style(reg, "Position", ["P", ["L", str(_f(m, "ho", 10)), hu], ["L", str(_f(m, "vo", 10)), vu], hedge, vedge])
    out = _run_desc(desc)
    if out[0]:
      return out
  return out


def ruby_font_size(model, obligation="", **_):
  """font sizes of every ruby part of the template document, with the font size of the model on the paragraph"""
  import rtc.c03 as R
  desc, roles = R.template(1, 1, None)
  R.add_style(roles["P"], "FontSize", ["L", str(_f(model, "pfs", 8)), "rh"])
  return _run_desc(desc)


def ruby_reserve_default(model, obligation="", **_):
  import rtc.c03 as R
  desc, roles = R.template(1, 1, {"s1"})
  R.add_style(roles["P"], "FontSize", ["L", str(_f(model, "fs", 8)), "rh"])
  R.add_style(roles["P"], "RubyReserve", ["RR", "before", None])
  return _run_desc(desc)


def _b(model, name):
  v = model.get(name)
  return None if v is None else str(v).lower() == "true"


def text_decoration(mask, model, obligation="", **_):
  import rtc.c03 as R
  desc, roles = R.template(1, 1, {"s1"})
  parent = [bool(_b(model, n)) for n in ("pu", "pl", "po")]
  spec = [bool(_b(model, n)) if mask & (1 << i) else None for i, n in enumerate(("su", "sl", "so"))]
  R.add_style(roles["P"], "TextDecoration", ["TD"] + parent)
  R.add_style(roles["Span"], "TextDecoration", ["TD"] + spec)
  return _run_desc(desc)


def origin_only(cell, px, model, obligation="", **_):
  import rtc.c03 as R
  desc, roles = R.template(1, 1, {"s1"})
  desc["cell"], desc["px"] = list(cell), list(px)
  R.add_style(roles["Region"], "Origin", ["O", ["L", str(_f(model, "ox", 10)), "rw"], ["L", str(_f(model, "oy", 20)), "rh"]])
  return _run_desc(desc)
