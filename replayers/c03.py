"""Native replay for C03: rebuild the recorded document with the model API, take the snapshot with the real
ISD.from_model and compare every element / applicable property with the style-resolution oracle (specs/styles.py)."""
from fractions import Fraction


def element_style(desc, t, key=None, **_):
  import logging
  logging.disable(logging.CRITICAL)
  import rtc.c03 as R
  from rtc.common import Recorder
  doc = R.build(desc)
  got = []
  info = {"kind": "replay", "mode": "replay", "wm": "*", "cell": desc["cell"], "px": desc["px"]}
  R.check_snapshot(Recorder("C03", "", {}), doc, Fraction(t), desc, info, got)
  lines = [f"document: {R.json.dumps(desc)}", f"t = {t}"]
  for k, rid, eid, name, obs, exp in got:
    if rid is None:
      lines.append(f"[{k}] ISD.from_model raised {obs}; required: {exp}")
    else:
      lines.append(f"[{k}] region {rid!r} element {eid!r} {name}: ttconv computed {R.S.show(obs) if obs is not None else 'nothing'}; "
                   f"TTML style resolution gives {R.S.show(exp) if exp is not None else 'no such style on this kind of element'}")
  hit = [g for g in got if key is None or g[0] == key]
  if not got:
    lines.append("all contracts hold on this document")
  elif not hit:
    lines.append(f"the recorded failure {key!r} is not reproduced (other failures are listed above)")
  return bool(hit), "\n".join(lines)
