"""Native replay for the ISD properties (C01, C02, C13, C14): regenerate the document from its generator coordinates and
re-evaluate the run-time contract of the property on the real code."""
import logging
from fractions import Fraction


def replay(prop, gen, t=None, call=None, **_):
  import rtc.isd_props as P
  from rtc.common import Recorder, rng
  from rtc import docgen
  logging.disable(logging.CRITICAL)
  gen = tuple(gen)
  doc = P.gen_doc(gen)
  rec = Recorder(prop, "", {})
  if prop == "C01":
    P.check_c01(rec, doc, gen)
  elif prop == "C02":
    P.check_c02(rec, doc, gen)
  elif prop == "C13":
    P.check_c13(rec, doc, gen)
  else:
    P.check_c14(rec, doc, gen, rng(gen[0], "replay"))
  text = f"document {docgen.describe(doc, 900)}"
  if rec.failures:
    return True, text + " | " + " || ".join(f"[{k}] {v['summary'][:400]}" for k, v in rec.failures.items())
  return False, text + " | all contracts of " + prop + " hold on this document"
