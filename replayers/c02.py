"""Native replay for the proof tier of C02."""
from fractions import Fraction


def _vals(model):
  return {k: Fraction(str(v).replace(" ", "")) for k, v in (model or {}).items()}


def shape(shape, mask, model=None, obligation=None, **_):
  from specs.isd_shapes import SHAPES
  from rtc import isd_props as P
  from ttconv.isd import ISD
  vals = _vals(model)
  v = lambda n: (vals.get(n, Fraction(0)) if n in mask else None)   # noqa: E731
  doc = SHAPES[shape](v)
  offs = list(ISD.significant_times(doc))
  if any(not a < b for a, b in zip(offs, offs[1:])):
    return True, f"significant times not strictly increasing: {offs}"
  ts = sorted({vals.get("t", Fraction(0))} | set(offs) | {o + Fraction(1, 1000) for o in offs} | {x for x in vals.values()} |
              {x + y for x in vals.values() for y in vals.values()})
  for t in ts:
    prev = [s for s in offs if s <= t]
    cur = P.fp_isd(ISD.from_model(doc, t), True)
    if not prev:
      if cur[0]:
        return True, f"content visible at t={t} before the first significant time {offs[:1]} with {({k: str(x) for k, x in vals.items()})}"
      continue
    if P.fp_isd(ISD.from_model(doc, prev[-1]), True) != cur:
      return True, (f"shape {shape} with {({k: str(x) for k, x in vals.items()})}: snapshot at t={t} differs from the one at the significant "
                    f"time {prev[-1]}; significant times {[str(o) for o in offs]}")
  seq = list(ISD.generate_isd_sequence(doc))
  if [t for t, _ in seq] != offs:
    return True, f"generate_isd_sequence yields the times {[str(t) for t, _ in seq]}, the significant times are {[str(o) for o in offs]}"
  for t, isd in seq:
    if P.fp_isd(isd, True) != P.fp_isd(ISD.from_model(doc, t), True):
      return True, (f"shape {shape} with {({k: str(x) for k, x in vals.items()})}: the entry of generate_isd_sequence at t={t} differs from "
                    f"ISD.from_model(doc, {t}); significant times {[str(o) for o in offs]}")
  return False, f"no change between significant times {[str(o) for o in offs]} at the probed instants; every sequence entry equals the snapshot at its time"
