"""Native replay for C18: one stored input (base64) through the reader and ONE stage of the pipeline on the real code."""
import base64


def replay(fmt, data_b64, binary=False, reader_cfg=None, stage="read", stage_cfg=None, filter_cfg=None, key=None, **_):
  import rtc.c18 as R
  raw = base64.b64decode(data_b64)
  payload = raw if binary else raw.decode("utf-8", "surrogatepass")
  got, detail = R.single_stage(fmt, payload, reader_cfg, stage, stage_cfg, filter_cfg)
  shown = repr(payload) if len(payload) <= 1500 else repr(payload[:1500]) + f"... ({len(payload)} in all)"
  cfgs = f"reader config {reader_cfg}" + (f", filter config {filter_cfg}" if stage.startswith("filter") else "") + \
      (f", {stage} config {stage_cfg}" if stage not in ("read", "isd", "filter") else "")
  required = R.REQUIRED_READ if stage == "read" else R.REQUIRED_DOWN
  head = f"{fmt} input {shown}\n{cfgs}\nstage `{stage}`: "
  if got is None:
    return False, head + f"{detail}\nrequired: {required} -- holds"
  text = head + f"{detail}\nfailure key {got}\nrequired: {required}"
  if key is not None and got != key:
    text += f"\n(recorded key was {key})"
  return True, text
