"""Native replay for the proof tier of C13."""
from fractions import Fraction


def shape(shape, mask, model=None, obligation=None, **_):
  from specs.isd_shapes import SHAPES
  from rtc import isd_props as P
  from ttconv.isd import ISD
  vals = {k: Fraction(str(v).replace(" ", "")) for k, v in (model or {}).items()}
  v = lambda n: (vals.get(n, Fraction(0)) if n in mask else None)   # noqa: E731
  doc = SHAPES[shape](v)
  t = vals.get("t", Fraction(0))
  probs, els = P.shape_problems(ISD.from_model(doc, t), doc)
  clause = (obligation or "").split("shape/")[-1].split("[")[0]
  hit = [msg for c, msg in probs if c == clause or (clause.startswith("length-units(") and c.startswith("length-units:") and c != "length-units:Disparity")]
  return bool(hit), f"shape {shape} with {({k: str(x) for k, x in vals.items()})} at t={t}: {hit[:3] if hit else 'clause holds'}"
