"""Native replays for C11 (run under /venv/bin/python on the untouched code): re-run one input through ttconv.vtt.reader and the
contracts of rtc/c11.py, print what was read and what the WebVTT oracle requires."""
import logging

logging.disable(logging.CRITICAL)


def _describe(text):
  import rtc.c11 as H
  from specs import vtt as V
  doc, err = H.read(text)
  if err is not None:
    return f"to_model raised {H.exc_text(err)}"
  out = []
  for p in H.paragraphs(doc):
    items = H.normalise(H.observe_p(p)[0])
    reg = p.get_region()
    box = H.region_box(reg) if reg is not None else None
    geo = ""
    if box is not None:
      import ttconv.style_properties as SP
      geo = (f" region {reg.get_id()}: origin ({box['x'][0]:.4g}%, {box['y'][0]:.4g}%) extent ({box['x'][1]:.4g}% x {box['y'][1]:.4g}%) "
             f"{reg.get_style(SP.StyleProperties.DisplayAlign)} {reg.get_style(SP.StyleProperties.TextAlign)} "
             f"{reg.get_style(SP.StyleProperties.WritingMode)}")
    out.append(f"P begin={p.get_begin()!r} end={p.get_end()!r} lines={V.plain_lines(items)!r}{geo}")
  return "; ".join(out) if out else "no paragraph"


def vtt_text(text, feature=None, **_):
  """re-check one WebVTT text (file contract, region contracts, sharing)"""
  import rtc.c11 as H
  from rtc.common import Recorder
  rec = Recorder("C11", "", {})
  H.check_file(rec, text, feature, check_regions=True, label="replay")
  head = f"input {text!r}\nread as: {_describe(text)}"
  if rec.failures:
    return True, head + "\nfailed contracts:\n  " + "\n  ".join(f"[{f['key']}] {f['summary']}" for f in rec.failures.values())
  return False, head + "\nall contracts hold"


def timestamp(text, **_):
  from fractions import Fraction
  from specs import vtt as V
  import ttconv.vtt.reader as R
  got = R.vtt_timestamp_to_secs(text)
  want = V.timestamp(text)
  bad = isinstance(got, float) or got is None or Fraction(got) != want
  return bad, f"vtt_timestamp_to_secs({text!r}) = {got!r} ({type(got).__name__}); the printed value is {want} exactly"


def writer_roundtrip(document, line_position, text_align, cue_id, **_):
  import rtc.c11 as H
  from rtc.common import Recorder
  import ttconv.vtt.writer as W
  from ttconv.vtt.config import VTTWriterConfiguration
  # run the whole writer contract and keep the failures of this configuration
  rec = H.writer(0)
  label = f"{document}/line_position={line_position},text_align={text_align},cue_id={cue_id}"
  mine = [f for f in rec.failures.values() if label in f["summary"]]
  doc = next(d for n, d, _c in H.writer_documents() if n == document)
  try:
    text = W.from_model(doc, VTTWriterConfiguration(line_position=line_position, text_align=text_align, cue_id=cue_id))
  except Exception as e:  # pylint: disable=broad-except
    text = f"<from_model raised {e!r}>"
  head = f"document {document!r} written with {label}:\n{text}\nread back as: {_describe(text)}"
  if mine:
    return True, head + "\nfailed:\n  " + "\n  ".join(f"[{f['key']}] {f['summary']}" for f in mine)
  return False, head + "\nround trip holds"


def region_model(template, model=None, key=None, **_):
  """a counter-model of the proof tier: instantiate the settings template ({L} {N} {P} {S}) and check the region natively"""
  import rtc.c11 as H
  from rtc.common import Recorder
  model = model or {}

  def val(name, default):
    v = model.get(name)
    try:
      return int(str(v).replace(" ", "")) if v is not None else default
    except ValueError:
      return default

  line_is_neg = any(t.startswith("line:{N}") for t in template) and val("N", -1) < 0
  values = {"L": val("L", 50), "N": val("N", -1 if line_is_neg else 1), "P": val("P", 50), "S": val("S", 50)}
  settings = [t.format(**values) for t in template]
  text = H.minimal_file([f"00:00:01.000 --> 00:00:02.000 {' '.join(settings)}\nx\n"])
  doc, err = H.read(text)
  if err is not None:
    return True, f"input {text!r}: to_model raised {H.exc_text(err)}"
  ps = H.paragraphs(doc)
  rec = Recorder("C11", "", {})
  H.check_region(rec, ps[0].get_region() if ps else None, settings, {"text": text})
  desc = _describe(text)
  hits = [f for f in rec.failures.values() if key is None or f["key"] == key]
  if hits:
    return True, f"input {text!r}\nread as: {desc}\n" + "; ".join(f"[{f['key']}] {f['summary']}" for f in hits)
  return False, f"input {text!r}\nread as: {desc}\nthe contract {key} holds for this input"
