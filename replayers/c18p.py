"""Native replays for the proof tier of C18 (contracts/c18_proofs.py): the counter-model's values are printed into a file /
put on the document shape and the same stages are run on the real, untouched code; reproduced = an exception escapes."""
import io
import logging
from fractions import Fraction


def _i(model, k):
  return int((model or {}).get(k, 0) or 0)


def _f(model, k):
  v = (model or {}).get(k)
  return Fraction(str(v)) if v is not None else Fraction(0)


def _stages(doc, which):
  import ttconv.srt.writer as sw
  import ttconv.vtt.writer as vw
  import ttconv.imsc.writer as iw
  from ttconv.isd import ISD
  from ttconv.srt.config import SRTWriterConfiguration
  from ttconv.vtt.config import VTTWriterConfiguration
  from ttconv.imsc.config import IMSCWriterConfiguration, TimeExpressionSyntaxEnum
  ISD.generate_isd_sequence(doc)
  for w in which:
    if w == "srt":
      sw.from_model(doc, None)
    elif w == "srt-fmt":
      sw.from_model(doc, SRTWriterConfiguration(text_formatting=False))
    elif w == "vtt":
      vw.from_model(doc, None)
    elif w == "vtt-line":
      vw.from_model(doc, VTTWriterConfiguration(line_position=True, cue_id=False))
    elif w == "imsc:clock_time":
      iw.from_model(doc, IMSCWriterConfiguration(time_format=TimeExpressionSyntaxEnum.clock_time))
    elif w == "imsc:frames@25":
      iw.from_model(doc, IMSCWriterConfiguration(time_format=TimeExpressionSyntaxEnum.frames, fps=Fraction(25)))
    elif w == "imsc:clock_time_with_frames@30":
      iw.from_model(doc, IMSCWriterConfiguration(time_format=TimeExpressionSyntaxEnum.clock_time_with_frames, fps=Fraction(30)))


def _run(what, fn):
  logging.disable(logging.CRITICAL)
  try:
    fn()
  except Exception as e:  # pylint: disable=broad-except
    import traceback
    where = traceback.extract_tb(e.__traceback__)[-1]
    return True, f"{what}: {type(e).__name__}: {e} ({where.filename.split('/')[-1]}:{where.lineno})"
  return False, f"{what}: every stage returned"


def srt_file(which=(), model=None, obligation=None, **_):
  import ttconv.srt.reader as r
  f = {k: _i(model, k) for k in ("begin_h", "begin_m", "begin_s", "begin_ms", "end_h", "end_m", "end_s", "end_ms")}
  line = f"{f['begin_h']:02d}:{f['begin_m']:02d}:{f['begin_s']:02d},{f['begin_ms']:03d} --> {f['end_h']:02d}:{f['end_m']:02d}:{f['end_s']:02d},{f['end_ms']:03d}"
  return _run(f"SRT cue {line!r} -> {list(which)}", lambda: _stages(r.to_model(io.StringIO(f"1\n{line}\nHello <b>bold</b>\nsecond line\n\n")), which))


def vtt_file(which=(), with_hours=True, model=None, obligation=None, **_):
  import ttconv.vtt.reader as r

  def ts(p):
    return (f"{_i(model, p + 'hh'):02d}:" if with_hours else "") + f"{_i(model, p + 'mm'):02d}:{_i(model, p + 'ss'):02d}.{_i(model, p + 'ms'):03d}"
  line = f"{ts('b_')} --> {ts('e_')}"
  return _run(f"WebVTT cue {line!r} -> {list(which)}",
              lambda: _stages(r.to_model(io.StringIO(f"WEBVTT\n\n{line}\nHello <i>there</i>\nsecond line\n\n")), which))


def intervals(which=(), second=None, model=None, obligation=None, **_):
  from contracts_native import two_paragraphs
  b1, e1 = _f(model, "b1"), _f(model, "e1")
  b2, e2 = {None: (None, None), "fixed": (Fraction(1), Fraction(2)), "touching": (e1, _f(model, "e2"))}[second]
  return _run(f"p1 [{b1}, {e1}) p2 [{b2}, {e2}) -> {list(which)}", lambda: _stages(two_paragraphs(b1, e1, b2, e2), which))


def ruby(shape="rubyparts", mask=(), which=(), model=None, obligation=None, **_):
  from specs.isd_shapes import SHAPES
  from ttconv.isd import ISD
  vals = {k: _f(model, k) for k in mask}
  doc = SHAPES[shape](lambda n: vals.get(n))
  t = _f(model, "t")

  def go():
    if which:
      _stages(doc, which)
      return
    ISD.from_model(doc, t)
    sig = ISD.significant_times(doc)
    ISD.from_model(doc, t, sig)
    ISD.generate_isd_sequence(doc)
  return _run(f"shape {shape} with {dict((k, str(v)) for k, v in vals.items())} at t={t} -> {list(which) or 'snapshots'}", go)
