"""Native replays for the regex-stub time proofs of C10/C11: print the digit fields with the widths the patterns allow."""
import io
from fractions import Fraction


def _i(model, k):
  return int(model.get(k, 0) or 0)


def srt(model=None, obligation=None, **_):
  import ttconv.srt.reader as r
  import ttconv.model as m
  model = model or {}
  f = {k: _i(model, k) for k in ("begin_h", "begin_m", "begin_s", "begin_ms", "end_h", "end_m", "end_s", "end_ms")}
  line = f"{f['begin_h']:02d}:{f['begin_m']:02d}:{f['begin_s']:02d},{f['begin_ms']:03d} --> {f['end_h']:02d}:{f['end_m']:02d}:{f['end_s']:02d},{f['end_ms']:03d}"
  doc = r.to_model(io.StringIO(f"1\n{line}\nHello\n\n"))
  p = next((e for e in doc.get_body().dfs_iterator() if isinstance(e, m.P)), None) if doc is not None else None
  if p is None:
    return True, f"{line!r}: no paragraph"
  wb = Fraction(((f['begin_h'] * 60 + f['begin_m']) * 60 + f['begin_s']) * 1000 + f['begin_ms'], 1000)
  we = Fraction(((f['end_h'] * 60 + f['end_m']) * 60 + f['end_s']) * 1000 + f['end_ms'], 1000)
  bad = p.get_begin() != wb or p.get_end() != we or isinstance(p.get_begin(), float) or isinstance(p.get_end(), float)
  return bad, f"{line!r}: begin {p.get_begin()!r} (want {wb}), end {p.get_end()!r} (want {we})"


def vtt(with_hours=True, model=None, obligation=None, **_):
  import ttconv.vtt.reader as r
  model = model or {}
  hh, mm, ss, ms = _i(model, "hh"), _i(model, "mm"), _i(model, "ss"), _i(model, "ms")
  s = (f"{hh:02d}:" if with_hours else "") + f"{mm:02d}:{ss:02d}.{ms:03d}"
  got = r.vtt_timestamp_to_secs(s)
  want = Fraction(((hh if with_hours else 0) * 3600 + mm * 60 + ss) * 1000 + ms, 1000)
  return (got != want or isinstance(got, float)), f"vtt_timestamp_to_secs({s!r}) = {got!r}, want {want}"


def vtt_cue(model=None, obligation=None, **_):
  import ttconv.vtt.reader as r
  import ttconv.model as m
  model = model or {}
  b = f"{_i(model, 'b_hh'):02d}:{_i(model, 'b_mm'):02d}:{_i(model, 'b_ss'):02d}.{_i(model, 'b_ms'):03d}"
  e = f"{_i(model, 'e_mm'):02d}:{_i(model, 'e_ss'):02d}.{_i(model, 'e_ms'):03d}"
  doc = r.to_model(io.StringIO(f"WEBVTT\n\n{b} --> {e}\nHello\n\n"))
  p = next((x for x in doc.get_body().dfs_iterator() if isinstance(x, m.P)), None)
  if p is None:
    return True, f"{b} --> {e}: no paragraph"
  wb = Fraction((( _i(model, 'b_hh') * 60 + _i(model, 'b_mm')) * 60 + _i(model, 'b_ss')) * 1000 + _i(model, 'b_ms'), 1000)
  we = Fraction((_i(model, 'e_mm') * 60 + _i(model, 'e_ss')) * 1000 + _i(model, 'e_ms'), 1000)
  bad = p.get_begin() != wb or p.get_end() != we or isinstance(p.get_begin(), float)
  return bad, f"{b} --> {e}: begin {p.get_begin()!r} (want {wb}), end {p.get_end()!r} (want {we})"


def srt_frames(fps=25, model=None, obligation=None, **_):
  import xml.etree.ElementTree as et
  import ttconv.srt.reader as r
  import ttconv.imsc.writer as w
  from ttconv.imsc.config import IMSCWriterConfiguration, TimeExpressionSyntaxEnum
  model = model or {}
  f = {k: _i(model, k) for k in ("begin_h", "begin_m", "begin_s", "begin_ms", "end_h", "end_m", "end_s", "end_ms")}
  line = f"{f['begin_h']:02d}:{f['begin_m']:02d}:{f['begin_s']:02d},{f['begin_ms']:03d} --> {f['end_h']:02d}:{f['end_m']:02d}:{f['end_s']:02d},{f['end_ms']:03d}"
  doc = r.to_model(io.StringIO(f"1\n{line}\nHello\n\n"))
  tree = w.from_model(doc, IMSCWriterConfiguration(time_format=TimeExpressionSyntaxEnum.frames, fps=Fraction(fps)))
  p = next(e for e in tree.getroot().iter() if e.tag.endswith("}p"))
  bad = False
  txt = []
  for side in ("begin", "end"):
    ms = ((f[side + "_h"] * 60 + f[side + "_m"]) * 60 + f[side + "_s"]) * 1000 + f[side + "_ms"]
    want = Fraction(ms * fps, 1000)
    got = p.get(side)
    txt.append(f"{side} {got!r} (intended frame {want})")
    if want.denominator == 1 and got != f"{want.numerator}f":
      bad = True
  return bad, f"{line!r} at {fps} fps: " + ", ".join(txt)


def writer_reader(fmt="srt", shape="twop", mask=(), model=None, obligation=None, **_):
  import logging
  import ttconv.model as m
  import rtc.cues_common as P
  from specs.isd_shapes import SHAPES
  from specs import cues as C
  logging.disable(logging.CRITICAL)
  model = model or {}
  vals = {k: Fraction(str(model.get(k, 0) or 0)) for k in mask}
  doc = SHAPES[shape](lambda n: vals.get(n))
  text, err = P.run_writer(doc, fmt)
  if err is not None:
    return True, f"writer raised {err!r}"
  cues, problems, _ = P.read_output(fmt, text)
  import ttconv.srt.reader as sr
  import ttconv.vtt.reader as vr
  doc2 = (sr if fmt == "srt" else vr).to_model(io.StringIO(text))
  ps = [e for e in doc2.get_body().dfs_iterator() if isinstance(e, m.P)]
  got = []
  for p in ps:
    lines, cur = [], ""
    for e in p.dfs_iterator():
      if isinstance(e, m.Br):
        lines.append(cur); cur = ""
      elif isinstance(e, m.Text):
        cur += e.get_text()
    lines.append(cur)
    got.append((p.get_begin() * 1000, p.get_end() * 1000, C.NL.join(lines)))
  want = [(c["begin"], c["end"], c["text"]) for c in cues]
  return (got != want or bool(problems)), f"shape {shape} with {dict((k, str(v)) for k, v in vals.items())}\nwritten:\n{text}\nread back: {got}\ncues written: {want}"
