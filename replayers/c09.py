"""Native replays for C09: run one byte-level STL file through the real ttconv.stl.reader.to_model and compare with the
Tech 3264 oracle (specs/stl.py) exactly as the bounded tier does."""
import logging

logging.disable(logging.CRITICAL)


def _show(paras):
  import rtc.c09 as R
  out = []
  for p in paras:
    cells = [c for ln in p["lines"] for c in ln]
    iv = sorted({(str(c.begin), str(c.end)) for c in cells})
    out.append(f"{R._fmt_text(p['lines'], True)!r} {iv} align={p['align']} region={p['region']}")
  return out


def file(data_hex, config=None, key=None, **_):
  """re-evaluate every contract on one file; reproduced iff a contract fails (with `key`, if given)"""
  import rtc.c09 as R
  from specs import stl as S
  data = bytes.fromhex(data_hex)
  evaluated, failures = R.check_file(data, config)
  spec = S.spec_stl(data, config, R.readings_for(data)[0])
  want = [f"{R._fmt_text(e['lines'], False)!r} [{e['lines'][0][0].begin}, {e['lines'][0][0].end})" for e in R.expected_paragraphs(spec)]
  out = R.run_reader(data, config)
  got = _show(out[1]) if out[0] == "ok" else [out[3]]
  text = (f"file {R.describe(data)} config {config}\n  to_model gives: {got}\n  required (fps {spec['fps']}, start {spec['start']}, "
          f"rows {spec['rows']}, dropped SN {spec['dropped']}, skipped blocks {spec['skipped']}): {want}")
  hits = [f for f in failures if key is None or f[1] == key]
  if hits:
    return True, text + "\n  failed contracts: " + "; ".join(f"{c} [{k}]: {m}" for c, k, m in hits)
  return False, text + "\n  all contracts hold" + (f" (other keys: {[f[1] for f in failures]})" if failures else "")


def text(cct, dsc, tf_hex, want, **_):
  """one text field alone in a subtitle"""
  import rtc.c09 as R
  tf = bytes.fromhex(tf_hex)
  data = R.stl_file([R.tti_block(tf=tf)], cct=cct.encode(), dsc=dsc.encode())
  out = R.run_reader(data, None)
  if out[0] != "ok":
    return True, f"CCT {cct} TF {tf_hex}: {out[3]}"
  got = "".join(c.ch for p in out[1] for ln in p["lines"] for c in ln)
  ok = got in want
  return (not ok), f"CCT {cct} TF {tf_hex}: decoded {got!r} {[hex(ord(c)) for c in got]}, required one of {want!r}"


def sn_shift(data_hex, shift=300, **_):
  """the same blocks with every subtitle number increased by `shift`"""
  import rtc.c09 as R
  from specs import stl as S
  lo = bytes.fromhex(data_hex)
  hi = bytearray(lo)
  for i in range(S.GSI_SIZE, len(lo), S.TTI_SIZE):
    sn = (lo[i + 1] | (lo[i + 2] << 8)) + shift
    hi[i + 1], hi[i + 2] = sn & 0xFF, sn >> 8
  a, b = R.run_reader(lo, None), R.run_reader(bytes(hi), None)
  if a[0] != "ok" or b[0] != "ok":
    return True, f"exception: {(a if a[0] != 'ok' else b)[3]}"
  ta, tb = _show(a[1]), _show(b[1])
  sns = [x["SN"] for x in R.describe(lo)["TTI"]]
  return R.canonical(a[1]) != R.canonical(b[1]), f"subtitle numbers {sns}: {ta}\n  subtitle numbers +{shift}: {tb}"


def region(dsc, rows, vp, lines, double=False, model=None, obligation="", **_):
  """proof-tier counter-model: one subtitle at VP with `lines` text rows in a file with `rows` rows"""
  import rtc.c09 as R
  from specs import stl as S
  if model:
    vp = int(model.get("vp", vp))
    rows = int(model.get("rows", rows))
    lines = int(model.get("n", lines))
  if dsc in ("1", "2"):
    rows = 23
  lines = max(1, min(lines, 50))
  nl = bytes([S.NEWLINE]) * (2 if double else 1)
  tf = ((b"\x0d" if double else b"") + nl.join(b"L" for _ in range(lines)))[:S.TF_SIZE]
  data = R.stl_file([R.tti_block(vp=vp & 0xFF, tf=tf)], dsc=dsc.encode(), mnr=b"%02d" % (rows % 100))
  cfg = {"max_row_count": rows}
  out = R.run_reader(data, cfg)
  if out[0] != "ok":
    return True, f"VP {vp}, {lines} lines, {rows} rows: {out[3]}"
  if not out[1]:
    return False, "no paragraph"
  x, y, w, h, da = out[1][0]["region"]
  lo = hi = lines * (2 if double else 1)
  text = (f"VP {vp}, {lines} lines{' double height' if double else ''}, {rows} rows: region origin ({x}, {y}) extent ({w}, {h}) "
          f"displayAlign {da}; safe area is 5..95 x 10..90")
  if not (1 <= vp and vp + hi - 1 <= rows):
    return False, text + "; outside the stated preconditions (1 <= VP, VP + rows of text - 1 <= row count)"
  bad = S.region_violations(x, y, w, h, da, vp, (lo, hi), [rows])
  return bool(bad), text + ("; " + "; ".join(b[1] for b in bad) if bad else "; region rule holds")


def times(dfc="STL25.01", start="none", model=None, obligation=None, **_):
  """proof tier `times@<dfc>,start=<start>`: the counter-model's time-code bytes in a one-block file, natively"""
  import io
  import logging
  from fractions import Fraction
  import ttconv.model as m
  import ttconv.stl.reader as r
  from ttconv.stl.config import STLReaderConfiguration
  from specs import smpte as SM
  from contracts.c09 import _gsi
  logging.disable(logging.CRITICAL)
  model = model or {}
  v = [int(model.get(k, 0) or 0) for k in ("ih", "im", "is", "if", "oh", "om", "os", "of")]
  rate = {"STL25.01": Fraction(25), "STL30.01": Fraction(30000, 1001), "STL24.01": Fraction(24), "STL50.01": Fraction(50)}[dfc]
  g = bytearray(_gsi(b"1"))
  g[3:11] = dfc.encode()
  if start == "TCP":
    g[256:264] = b"10000000"
  tti = bytes([0, 1, 0, 0xFF, 0] + v + [2, 0, 0]) + b"Line" + b"\x8f" * 108
  cfg = STLReaderConfiguration(program_start_tc="TCP") if start == "TCP" else None
  doc = r.to_model(io.BytesIO(bytes(g) + tti), cfg)
  ps = [e for e in doc.get_body().dfs_iterator() if isinstance(e, m.P)] if doc.get_body() is not None else []
  off = Fraction(SM.count(10, 0, 0, 0, rate)) / rate if start == "TCP" else Fraction(0)
  tin = Fraction(SM.count(*v[0:4], rate)) / rate - off
  tout = Fraction(SM.count(*v[4:8], rate)) / rate - off
  got = [(p.get_begin(), p.get_end()) for p in ps]
  if tin < 0:
    return bool(ps), f"TCI {v[0:4]} before the programme start: paragraphs {got}"
  if tout < tin:
    return False, f"TCO {v[4:8]} before TCI {v[0:4]}: nothing demanded"
  return got != [(tin, tout)], f"TCI {v[0:4]} TCO {v[4:8]} at {rate} fps, start {start}: paragraphs {got}, required [{tin}, {tout})"


def split(split_hex, single_hex, **_):
  """metamorphic contract: the same text field split over extension blocks and in one block, natively"""
  import rtc.c09 as R
  d = R.split_difference(bytes.fromhex(split_hex), bytes.fromhex(single_hex))
  head = f"split file {R.describe(bytes.fromhex(split_hex))}\nsingle-block file {R.describe(bytes.fromhex(single_hex))}"
  return (d is not None), head + "\n" + (d or "both read identically")
