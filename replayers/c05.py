"""Native replays for C05 (run under /venv/bin/python on the untouched code)."""
import math
from fractions import Fraction


def replay(cfg, feature=None, label=None, gen=None, exclude=None, **_):
  """re-run one (document, configuration) round trip: a focused document (feature index + label) or a random document
  (generator coordinates + the labels removed from it)"""
  import rtc.c05 as P
  from rtc.common import Recorder
  from rtc import docgen
  P.install_logging()
  rec = Recorder("C05", "", {})
  if feature is not None:
    ft = P.FEATURES[int(feature)]
    if label is not None and ft.label != label:
      cands = [i for i, f in enumerate(P.FEATURES) if f.label == label]
      if not cands:
        return False, f"the feature catalogue changed: no feature labelled {label}"
      feature = cands[0]
      ft = P.FEATURES[feature]
    build = lambda: P.focus_doc(int(feature), cfg)      # noqa: E731
    P.roundtrip(rec, build, cfg, ft.label, {"feature": feature, "label": ft.label, "cfg": cfg}, ft.note)
  else:
    coords = tuple(gen)
    build = lambda: P.random_doc(coords, tuple(exclude or ()))      # noqa: E731
    P.roundtrip(rec, build, cfg, "doc", {"gen": list(coords), "cfg": cfg, "exclude": list(exclude or ())})
  doc = build()
  text = f"configuration {cfg}; document {docgen.describe(doc, 900)}"
  try:
    c, _s, _f = P.make_config(cfg)
    text += " | written: " + P.serialize(P.imsc_writer.from_model(doc, c)).decode("utf-8")[:1200]
  except Exception as e:  # pylint: disable=broad-except
    text += f" | writer raises {e!r}"
  if rec.failures:
    return True, text + " | " + " || ".join(f"[{k}] {v['summary'][:500]}" for k, v in rec.failures.items())
  return False, text + " | the round trip satisfies every contract of C05"


def colour(rgba, **_):
  import ttconv.utils
  import ttconv.style_properties as sp
  import ttconv.imsc.style_properties as isp
  from specs import imsc_rt as S
  c = sp.ColorType(tuple(rgba))
  txt = isp.StyleProperties.to_ttml_color(c)
  back = ttconv.utils.parse_color(txt)
  p = S.color_text_problem(txt, tuple(rgba))
  return bool(p) or back != c, f"to_ttml_color({tuple(rgba)}) = {txt!r}; parse_color -> {back}; {p or 'text form ok'}"


def _ctx(syntax, rate):
  import ttconv.imsc.attributes as A
  fps = Fraction(rate) if rate else None
  return A, fps, A.TemporalAttributeWritingContext(frame_rate=fps, time_expression_syntax=A.TimeExpressionSyntaxEnum[syntax])


def time_expression(syntax, rate, t, t2=None, **_):
  import ttconv.imsc.utils as U
  from specs import imsc_rt as S
  A, fps, ctx = _ctx(syntax, rate)
  msgs, bad, ws = [], False, []
  for x in [t] + ([t2] if t2 is not None else []):
    x = Fraction(x)
    try:
      txt = A.to_time_format(ctx, x)
      w = S.parse_written(txt, syntax, fps)
      back = U.parse_time_expression(1, fps if fps is not None else Fraction(30), txt)
    except Exception as e:  # pylint: disable=broad-except
      return True, f"to_time_format({syntax}@{rate}, {x}) / parse: {e!r}"
    probs = S.time_problems([(x, w)], syntax, fps)
    bad = bad or bool(probs) or back != w
    ws.append((x, w))
    msgs.append(f"to_time_format({syntax}@{rate}, {x}) = {txt!r} = {w} s (reader: {back} s){'; ' + probs[0][1] if probs else ''}")
  if len(ws) == 2 and ws[0][0] <= ws[1][0] and ws[0][1] > ws[1][1]:
    bad = True
    msgs.append("order changed")
  return bad, "; ".join(msgs)


# ---- proof tier: counter-models of the inverse lemmas


def _frac(v):
  return Fraction(str(v).replace(" ", "")) if v is not None else Fraction(0)


def inverse_lemma(syntax, rate, model, obligation="", **_):
  """evaluate the lemma natively at the solver's model (t, t2 or k)"""
  from specs import imsc_rt as S
  A, fps, ctx = _ctx(syntax, rate)
  u = S.unit(syntax, fps)
  ts = []
  if model.get("k") is not None:
    ts.append(int(model["k"]) * u)
  for key in ("t", "t2"):
    if model.get(key) is not None:
      ts.append(_frac(model[key]))
  out, bad, ws = [], False, []
  for t in ts:
    if t < 0:
      continue
    txt = A.to_time_format(ctx, t)
    w = S.parse_written(txt, syntax, fps)
    probs = S.time_problems([(t, w)], syntax, fps)
    bad = bad or bool(probs)
    ws.append((t, w))
    out.append(f"{t} -> {txt!r} = {w}" + (f" ({probs[0][1]})" if probs else ""))
  ws.sort()
  if any(a[1] > b[1] for a, b in zip(ws, ws[1:])):
    bad = True
    out.append("order changed")
  return bad, f"{syntax}@{rate}: " + "; ".join(out)


def shape(shape="twop", mask=(), syntax="clock_time", rate=None, model=None, obligation=None, **_):
  """proof tier `roundtrip[shape:mask;syntax@rate]`: the counter-model's timing values on the shape, natively: write, read back, and
  list the times of both documents side by side (reproduced = an element with content is lost, or a time moves by a unit or more)"""
  import logging
  from fractions import Fraction
  import ttconv.model as m
  import ttconv.imsc.writer as w
  import ttconv.imsc.reader as r
  from ttconv.imsc.config import IMSCWriterConfiguration, TimeExpressionSyntaxEnum
  from specs.isd_shapes import SHAPES
  logging.disable(logging.CRITICAL)
  model = model or {}
  vals = {k: Fraction(str(model.get(k, 0) or 0)) for k in mask}
  fps = Fraction(rate) if rate else None
  unit = Fraction(1, 1000) if fps is None else 1 / fps
  doc = SHAPES[shape](lambda n: vals.get(n))
  try:
    tree = w.from_model(doc, IMSCWriterConfiguration(time_format=getattr(TimeExpressionSyntaxEnum, syntax), fps=fps))
    doc2 = r.to_model(tree)
  except Exception as e:  # pylint: disable=broad-except
    return True, f"shape {shape} with {vals}: {type(e).__name__}: {e}"

  def flat(d):
    return [(type(e).__name__, e.get_begin(), e.get_end(), "".join(c.get_text() for c in e if isinstance(c, m.Text)))
            for e in (d.get_body().dfs_iterator() if d.get_body() is not None else []) if not isinstance(e, (m.Text, m.Br))]
  a, b = flat(doc), flat(doc2)
  text_a = "".join(x[3] for x in a)
  text_b = "".join(x[3] for x in b)
  bad = []
  j = 0
  for x in a:
    y = next((b[k] for k in range(j, len(b)) if b[k][0] == x[0] and b[k][3] == x[3]), None)
    if y is None:
      continue
    j = b.index(y, j) + 1
    for t0, t1, what in ((x[1], y[1], "begin"), (x[2], y[2], "end")):
      if t0 is not None and t1 is not None and abs(t1 - t0) >= unit:
        bad.append(f"{x[0]} {x[3]!r} {what}: {t0} -> {t1}")
  lost = [c for c in text_a if c not in text_b]
  lines = [f"shape {shape} with {dict((k, str(v)) for k, v in vals.items())}, {syntax}{'@' + str(rate) if rate else ''}",
           "source : " + "; ".join(f"{k}{'' if not t else ' ' + repr(t)} [{b0}, {e0})" for k, b0, e0, t in a),
           "re-read: " + "; ".join(f"{k}{'' if not t else ' ' + repr(t)} [{b0}, {e0})" for k, b0, e0, t in b)]
  if bad or lost:
    return True, "\n".join(lines + ["FAILED: " + "; ".join(bad + ([f"text lost: {''.join(lost)!r}"] if lost else []))])
  return False, "\n".join(lines + ["every time within one unit, no text lost"])
