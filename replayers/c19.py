"""Native replays for C19 (run under /venv/bin/python on the untouched code): one command line through the real
ttconv.tt.main (in this interpreter or in a fresh one) against the library composition, or one configuration value through the
real configuration classes."""
import json
import shutil
import tempfile



def _case(R, docs, d):
  idx = d.get("document_index")
  name = d.get("document")
  if idx is None or idx >= len(docs) or f"{docs[idx][0]}.{docs[idx][1]}" != name:
    idx = next((i for i, x in enumerate(docs) if f"{x[0]}.{x[1]}" == name), None)
  if idx is None and d.get("document_hex"):
    docs.append((name.rsplit(".", 1)[0], name.rsplit(".", 1)[1], bytes.fromhex(d["document_hex"])))
    idx = len(docs) - 1
  if idx is None:
    raise LookupError(f"input document {name} is not available")
  return R.Case(idx, d["input_name"], d["output_name"], d.get("itype"), d.get("otype"), tuple(d.get("filters") or ()), d.get("config"),
                d.get("config_file"), d.get("contract") or "cli==composition", d.get("note") or "", d.get("subcommand") or "convert",
                tuple(d.get("alts") or ()), d.get("key_hint"))


def _describe(R, argv, wd, status, detail, data, bad):
  txt = (f"tt {' '.join(R._show_argv(argv, wd))}\n  -> {status}{'' if detail is None else ' (' + str(detail) + ')'}; "
         f"output file: {R._short(data, 600)!r}")
  if bad:
    return True, txt + f"\n  VIOLATED [{bad[0]}]: {bad[1]}\n  required: {bad[2]}"
  return False, txt + "\n  as required (equal to the library composition / rejected as documented)"


def command_line(case, **_):
  import rtc.c19 as R
  docs = R.input_documents()
  c = _case(R, docs, case)
  wd = tempfile.mkdtemp(prefix="c19-replay-")
  try:
    argv, inp, outp = R.materialise(c, docs, wd)
    status, detail, data, _console = R.run_main(argv, outp)
    bad = R.judge(c, inp, status, detail, data)
    return _describe(R, argv, wd, status, detail, data, bad)
  finally:
    shutil.rmtree(wd, ignore_errors=True)


def fresh(cases, position, hash_seed=0, how="worker", **_):
  """the same sequence of command lines in one fresh interpreter"""
  import rtc.c19 as R
  docs = R.input_documents()
  cs = [_case(R, docs, d) for d in cases]
  wd = tempfile.mkdtemp(prefix="c19-replay-")
  try:
    if how == "worker":
      res, err = R.run_worker(cs, docs, wd, hash_seed)
      if res is None:
        return False, f"the fresh interpreter produced no result: {err}"
    else:
      res = [R.run_command(cs[0], docs, wd, hash_seed, how)]
    out = []
    any_bad = False
    for pos, (c, (status, detail, data, inp)) in enumerate(zip(cs, res)):
      bad = R.judge(c, inp, status, detail, data)
      any_bad = any_bad or bool(bad)
      argv = R.materialise(c, docs, wd + "/show")[0]
      out.append(f"[{pos}] " + _describe(R, argv, wd + "/show", status, detail, data, bad)[1])
    # outputs of the same command lines, each in its own fresh interpreter
    if len(cs) > 1:
      c = cs[position]
      alone, _ = R.run_worker([c], docs, wd + "/alone", 0)
      if alone is not None and alone[0][2] != res[position][2]:
        any_bad = True
        out.append(f"position {position}: output differs from the output of the same command line alone in a fresh interpreter: "
                   + R.first_difference(res[position][2] or b"", alone[0][2] or b""))
    # the command line at `position`, alone, under several hash seeds
    if how == "worker":
      seen = {}
      for hs in dict.fromkeys([0, 1, 2, 3, 7, 42, int(hash_seed)]):
        alone, _ = R.run_worker([cs[position]], docs, wd + f"/hs{hs}", hs)
        if alone is not None:
          seen.setdefault(alone[0][2], []).append(hs)
      if len(seen) > 1:
        any_bad = True
        out.append(f"position {position} alone in fresh interpreters: {len(seen)} different outputs, by PYTHONHASHSEED: {sorted(seen.values())}")
      else:
        out.append(f"position {position} alone in fresh interpreters: same output under PYTHONHASHSEED {sorted(seen.values())}")
    return any_bad, f"PYTHONHASHSEED={hash_seed}\n" + "\n".join(out)
  finally:
    shutil.rmtree(wd, ignore_errors=True)


def _report(rec, what):
  if rec.failures:
    return True, what + "\n" + "\n".join(f"  VIOLATED [{f['key']}]: {f['summary']}; observed {f['observed']}; required {f['required']}"
                                         for f in rec.failures.values())
  return False, what + ": as documented"


def config_value(module, key, value_json, **_):
  import rtc.c19 as R
  from rtc.common import Recorder
  from specs import ttcli as S
  value = json.loads(value_json)
  rec = Recorder("C19", "", {})
  what = f"{module}.{key} = {value_json} (documentation: {S.classify(module, key, value)[0]})"
  if module == "general":
    wd = tempfile.mkdtemp(prefix="c19-replay-")
    try:
      R.check_general_value(rec, key, value, R.input_documents(), wd)
    finally:
      shutil.rmtree(wd, ignore_errors=True)
  else:
    R.check_config_value(rec, module, key, value)
  return _report(rec, what)


def config_section(module, section_json, **_):
  import rtc.c19 as R
  from specs import ttcli as S
  section = json.loads(section_json)
  norm = R._defaults(module)
  for k, v in section.items():
    norm[k] = S.classify(module, k, v)[1]
  want = S.lib_config(module, norm)
  try:
    got = R.tt_module().read_config_from_json(R.config_class(module), {module: section})
  except Exception as e:  # pylint: disable=broad-except
    return True, f"{module} = {section_json}: rejected with {type(e).__name__}: {e}; required {want!r}"
  ok = R._same_config(got, want, None)
  return (not ok), f"{module} = {section_json}: parsed to {got!r}; required {want!r}"


def plumbing(module, probe, **_):
  import rtc.c19 as R
  from rtc.common import Recorder
  rec = Recorder("C19", "", {})
  R.check_config_plumbing(rec)
  rec.failures = {k: v for k, v in rec.failures.items() if v["input"] and v["input"].get("module") == module}
  return _report(rec, f"read_config_from_json probes for {module}")


# ---------------------------------------------------------------------------------------------------------------------
# proof tier: counter-models of the obligations on ModuleConfiguration.parse({key: x}) for an integer x


def parse_int(module, key, model, obligation="", **_):
  """the integer of the counter-model (and a few neighbours / typical values) through the real parse"""
  m = {k: int(str(v)) for k, v in (model or {}).items() if str(v).lstrip("-").isdigit()}
  x0 = m.get("x", 0)
  texts = []
  hit = False
  for x in dict.fromkeys([x0, x0 - 1, x0 + 1, -1, 0, 1, 2, 30, 31]):
    r, t = config_value(module, key, json.dumps(x))
    if r:
      hit = True
      texts.append(t)
    elif x == x0:
      texts.append(t)
    if hit and len(texts) >= 2:
      break
  return hit, "\n".join(texts)
