"""Native replays for C12 (run under /venv/bin/python on the untouched code)."""
from fractions import Fraction

from specs import smpte
from ttconv.time_code import SmpteTimeCode, ClockTime


def _rate(rate):
  return Fraction(rate)


def _int(model, k, default=0):
  v = model.get(k)
  return int(v) if v is not None else default


def _frac(v):
  return Fraction(str(v).replace(" ", "")) if v is not None else Fraction(0)


def _search(pred, center, lo=0, radius=3000):
  """the solver's model may use an abstract float error term: scan integers around it for a concrete witness"""
  if pred(center):
    return center
  for d in range(1, radius):
    for x in (center + d, center - d):
      if x >= lo and pred(x):
        return x
  return None


def frames_label(rate, model, obligation=""):
  r = _rate(rate)
  n0 = _int(model, "n")

  def bad(n):
    tc = SmpteTimeCode.from_frames(n, r)
    lab = (tc.get_hours(), tc.get_minutes(), tc.get_seconds(), tc.get_frames())
    return not bool(smpte.valid(*lab, r)) or smpte.count(*lab, r) != n or tc.to_frames() != n

  n = _search(bad, n0)
  if n is None:
    return False, f"from_frames/to_frames agree with SMPTE 12M around n={n0} at {r}"
  tc = SmpteTimeCode.from_frames(n, r)
  return True, (f"from_frames({n}, {r}) = {tc}; to_frames() = {tc.to_frames()}; SMPTE label {smpte.label(n, r)}; "
                f"label valid: {bool(smpte.valid(tc.get_hours(), tc.get_minutes(), tc.get_seconds(), tc.get_frames(), r))}")


def label_count(rate, model, obligation=""):
  r = _rate(rate)
  lab = tuple(_int(model, k) for k in ("h", "m", "s", "f"))
  if not smpte.valid(*lab, r):
    return False, f"model label {lab} is not a valid label"
  tc = SmpteTimeCode(*lab, r)
  got, want = tc.to_frames(), smpte.count(*lab, r)
  off = tc.to_temporal_offset()
  if got != want or off != Fraction(want) / r:
    return True, f"SmpteTimeCode{lab}@{r}.to_frames() = {got}, SMPTE count = {want}; to_temporal_offset() = {off}, exact = {Fraction(want) / r}"
  return False, f"to_frames{lab}@{r} = {got} as required"


def add_frames(rate, model, obligation=""):
  r = _rate(rate)
  lab = tuple(_int(model, k) for k in ("h", "m", "s", "f"))
  k = _int(model, "k")
  if not smpte.valid(*lab, r):
    return False, "model label invalid"
  tc = SmpteTimeCode(*lab, r)
  before = smpte.count(*lab, r)
  tc.add_frames(k)
  after = (tc.get_hours(), tc.get_minutes(), tc.get_seconds(), tc.get_frames())
  if not smpte.valid(*after, r) or smpte.count(*after, r) != before + k:
    return True, f"{lab}@{r} + {k} frames -> {after}: count {smpte.count(*after, r)} != {before} + {k}"
  return False, f"add_frames({k}) on {lab}@{r} is correct"


def from_seconds_boundary(rate, model, obligation=""):
  r = _rate(rate)
  k0 = _int(model, "k")

  def bad(k):
    tc = SmpteTimeCode.from_seconds(Fraction(k) / r, r)
    return tc.to_frames() != k or smpte.count(tc.get_hours(), tc.get_minutes(), tc.get_seconds(), tc.get_frames(), r) != k

  k = _search(bad, k0, radius=200000)
  if k is None:
    return False, f"from_seconds(k/{r}) lands on frame k for all k within 200000 of {k0}"
  tc = SmpteTimeCode.from_seconds(Fraction(k) / r, r)
  return True, f"from_seconds(Fraction({k})/{r}, {r}) = {tc} = frame {tc.to_frames()}, expected frame {k} ({smpte.label(k, r)})"


def from_seconds_any(rate, model, obligation=""):
  r = _rate(rate)
  t0 = _frac(model.get("t"))
  cands = [t0] + [Fraction(int(t0 * r) + d) / r + e for d in range(-3, 4) for e in (0, Fraction(1, 10 ** 9))]
  for t in cands:
    if t < 0:
      continue
    tc = SmpteTimeCode.from_seconds(t, r)
    want = (t * r).__floor__()
    if tc.to_frames() != want:
      return True, f"from_seconds({t}, {r}) = frame {tc.to_frames()}, floor(t*rate) = {want}"
  return False, f"from_seconds agrees with floor(t*rate) near t={t0}"


def clock_time(model, obligation=""):
  ts = [_frac(model.get(k)) for k in ("t", "t2") if model.get(k) is not None]
  msgs = []
  tot = []
  for t in ts:
    if t < 0:
      continue
    c = ClockTime.from_seconds(t)
    fields_ok = 0 <= c.get_minutes() < 60 and 0 <= c.get_seconds() < 60 and 0 <= c.get_milliseconds() < 1000 and c.get_hours() >= 0
    total = ((c.get_hours() * 60 + c.get_minutes()) * 60 + c.get_seconds()) * 1000 + c.get_milliseconds()
    tot.append((t, total))
    if not fields_ok or abs(Fraction(total, 1000) - t) > Fraction(1, 2000):
      msgs.append(f"ClockTime.from_seconds({t}) = {c} (fields in range: {fields_ok}, error {float(abs(Fraction(total, 1000) - t))} s)")
  if len(tot) == 2 and ((tot[0][0] <= tot[1][0]) != (tot[0][1] <= tot[1][1])) and tot[0][0] != tot[1][0]:
    if (tot[0][0] < tot[1][0] and tot[0][1] > tot[1][1]) or (tot[0][0] > tot[1][0] and tot[0][1] < tot[1][1]):
      msgs.append(f"not monotone: {tot}")
  return (True, "; ".join(msgs)) if msgs else (False, f"ClockTime.from_seconds correct at {ts}")


def time_format_frames(rate, model, obligation=""):
  import math
  from ttconv.imsc.attributes import to_time_format, TemporalAttributeWritingContext, TimeExpressionSyntaxEnum
  r = _rate(rate)
  t = _frac(model.get("t"))
  out = to_time_format(TemporalAttributeWritingContext(frame_rate=r, time_expression_syntax=TimeExpressionSyntaxEnum.frames), t)
  want = f"{math.ceil(t * r)}f"
  return (out != want), f"to_time_format(frames, {t}) = {out!r}, expected {want!r}"


def time_format_clock(rate, model, obligation=""):
  from ttconv.imsc.attributes import to_time_format, TemporalAttributeWritingContext, TimeExpressionSyntaxEnum
  r = _rate(rate)
  t = _frac(model.get("t"))
  out = to_time_format(TemporalAttributeWritingContext(frame_rate=r, time_expression_syntax=TimeExpressionSyntaxEnum.clock_time), t)
  ms = round(t * 1000)
  want = f"{ms // 3600000:02d}:{ms // 60000 % 60:02d}:{ms // 1000 % 60:02d}.{ms % 1000:03d}"
  return (out != want), f"to_time_format(clock_time with frame rate {r}, {t}) = {out!r}, expected {want!r}"
