"""Native replay for C17: decode one word with the real code and compare with the CEA-608 oracle."""
from specs import cea608 as S


def word(word, **_):
  from ttconv.scc.word import SccWord
  from ttconv.scc.disassembly import get_scc_word_disassembly
  import rtc.c17 as R
  from rtc.common import Recorder
  v = int(word, 16)
  rec = Recorder("C17", "", {})
  R._words(rec, {}, [v])
  w = SccWord.from_value(v)
  text = f"word {v:04x}: decoded {R.describe(w)}; disassembly {get_scc_word_disassembly(w, True)!r}; CEA-608: {S.classify((v >> 8) & 0x7F, v & 0x7F)}"
  if rec.failures:
    return True, text + "; failed contracts: " + "; ".join(f["summary"] for f in rec.failures.values())
  return False, text + "; all contracts hold"
