"""Native replay for C06: regenerate the document from its generator coordinates, run the real writer with the recorded
configuration and compare its cues with the reference flattening of specs/cues.py."""
import logging


def replay(gen, config, prop="C06", **_):
  import rtc.cues_common as P
  from rtc.common import Recorder
  from rtc import docgen
  from specs import cues as C
  logging.disable(logging.CRITICAL)
  info = tuple(gen)
  doc = P.gen_doc(info)
  rec = Recorder(prop, "", {})
  status = P.check_doc(rec, prop, doc, info, [config])
  text, err = P.run_writer(doc, config)
  lines = [f"document {docgen.describe(doc, 1500)}", f"configuration {config} {P.ALL_CONFIGS[config]}"]
  if err is not None:
    lines.append(f"writer raised {err!r}")
  else:
    lines.append("writer output:\n" + text)
  fmt = "srt" if config.startswith("srt") else "vtt"
  exp = C.expected_cues(doc, {"format": fmt, "line_position": P.ALL_CONFIGS[config].get("line_position", False)})
  if exp is not None:
    lines.append("cues required by the statement (ruby annotations optional, shown without):")
    lines += [f"  {c['begin']} --> {c['end']} ms{' (unbounded: begin of the last cue + 10 s)' if c['unbounded'] else ''}: {c['text']!r}" for c in exp]
  if status == "outside":
    lines.append("document outside the statement (ruby with an inactive part)")
  if rec.failures:
    lines += [f"FAILED [{k}] {v['summary'][:500]}" for k, v in rec.failures.items()]
    return True, "\n".join(lines)
  return False, "\n".join(lines + [f"all contracts of {prop} hold on this document and configuration"])
