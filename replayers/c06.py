"""Native replay for C06: regenerate the document from its generator coordinates, run the real writer with the recorded
configuration and compare its cues with the reference flattening of specs/cues.py."""
import logging


def replay(gen, config, prop="C06", **_):
  import rtc.cues_common as P
  from rtc.common import Recorder
  from rtc import docgen
  from specs import cues as C
  logging.disable(logging.CRITICAL)
  info = tuple(gen)
  doc = P.gen_doc(info)
  rec = Recorder(prop, "", {})
  status = P.check_doc(rec, prop, doc, info, [config])
  text, err = P.run_writer(doc, config)
  lines = [f"document {docgen.describe(doc, 1500)}", f"configuration {config} {P.ALL_CONFIGS[config]}"]
  if err is not None:
    lines.append(f"writer raised {err!r}")
  else:
    lines.append("writer output:\n" + text)
  fmt = "srt" if config.startswith("srt") else "vtt"
  exp = C.expected_cues(doc, {"format": fmt, "line_position": P.ALL_CONFIGS[config].get("line_position", False)})
  if exp is not None:
    lines.append("cues required by the statement (ruby annotations optional, shown without):")
    lines += [f"  {c['begin']} --> {c['end']} ms{' (unbounded: begin of the last cue + 10 s)' if c['unbounded'] else ''}: {c['text']!r}" for c in exp]
  if status == "outside":
    lines.append("document outside the statement (ruby with an inactive part)")
  if rec.failures:
    lines += [f"FAILED [{k}] {v['summary'][:500]}" for k, v in rec.failures.items()]
    return True, "\n".join(lines)
  return False, "\n".join(lines + [f"all contracts of {prop} hold on this document and configuration"])


def default_end(begin, config, **_):
  from fractions import Fraction
  import ttconv.model as m
  import rtc.cues_common as P
  from specs import cues as C
  logging.disable(logging.CRITICAL)
  b = Fraction(begin)
  doc = m.ContentDocument()
  body, div, p, span = m.Body(doc), m.Div(doc), m.P(doc), m.Span(doc)
  p.set_begin(b)
  span.push_child(m.Text(doc, "x"))
  p.push_child(span)
  div.push_child(p)
  body.push_child(div)
  doc.set_body(body)
  text, err = P.run_writer(doc, config)
  if err is not None:
    return True, f"one paragraph 'x' beginning at {b} s without end: {config} writer raised {err!r}"
  cues, _, _ = P.read_output(config, text)
  got = [(c["begin"], c["end"], c["text"]) for c in cues]
  want = [(C.to_ms(b, mode), C.to_ms(b, mode) + 10000, "x") for mode in ("even", "up")]
  return not any(got == [w] for w in want), f"one paragraph 'x' beginning at {b} s without end: {config} output {text!r}; required cue {want[0]}"


def shape(fmt="srt", shape="twop", mask=(), model=None, obligation=None, **_):
  """proof tier `<fmt>.writer==reference[shape:mask]`: the counter-model's timing values on the shape, natively"""
  from fractions import Fraction
  import rtc.cues_common as P
  from rtc import docgen
  from specs import cues as C
  from specs.isd_shapes import SHAPES
  logging.disable(logging.CRITICAL)
  model = model or {}
  vals = {k: Fraction(str(model.get(k, 0) or 0)) for k in mask}
  doc = SHAPES[shape](lambda n: vals.get(n))
  text, err = P.run_writer(doc, fmt)
  lines = [f"shape {shape} with {dict((k, str(v)) for k, v in vals.items())}: {docgen.describe(doc, 900)}"]
  if err is not None:
    return True, "\n".join(lines + [f"writer raised {err!r}"])
  cues, problems, _ = P.read_output(fmt, text)
  exp = C.expected_cues(doc, {"format": fmt, "line_position": False})
  diff = C.timeline_diff(exp, [{"begin": c["begin"], "end": c["end"], "text": c["text"]} for c in cues]) if exp is not None else None
  lines += ["writer output:\n" + text, "cues required: " + "; ".join(f"{c['begin']}-{c['end']} {c['text']!r}" for c in (exp or []))]
  if problems or diff is not None:
    return True, "\n".join(lines + [f"FAILED: {problems or diff}"])
  return False, "\n".join(lines + ["output equals the reference flattening"])
