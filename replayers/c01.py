"""Native replays for the proof tier of C01."""
from fractions import Fraction


def _frac(x):
  return Fraction(str(x).replace(" ", ""))


def shape(shape, mask, model=None, obligation=None, **_):
  from specs import isd as S
  from specs.isd_shapes import SHAPES
  from rtc import isd_props as P
  from ttconv.isd import ISD
  model = model or {}
  vals = {k: _frac(v) for k, v in model.items()}

  def v(name):
    if name not in mask:
      return None
    return vals.get(name, Fraction(0))

  t = vals.get("t", Fraction(0))
  # the solver's model is exact (rational arithmetic only); also try the neighbouring boundary values
  cands = [t] + sorted({x for x in vals.values()} | {x + Fraction(1, 1000) for x in vals.values()})
  for tt in cands:
    doc = SHAPES[shape](v)
    try:
      isd = ISD.from_model(doc, tt)
    except Exception as e:  # pylint: disable=broad-except
      return True, f"ISD.from_model raised {e!r} at t={tt} with {vals}"
    got = {r.get_id(): P.norm(P.tree(r)) for r in isd.iter_regions()}
    want, flags = S.snapshot(doc, tt)
    exp = {k: P.norm(S.strip(n)) for k, n in want.items()}
    if got != exp:
      return True, f"shape {shape} with {({k: str(x) for k, x in vals.items()})} at t={tt}: snapshot {got} but TTML gives {exp}"
  return False, f"shape {shape}: snapshot equals the oracle at {[str(c) for c in cands]}"


def make_absolute(mask, model=None, obligation=None, **_):
  from ttconv.isd import ISD
  from specs import isd as S
  model = model or {}
  names = ["bo", "eo", "pb", "pe"]
  a = [(_frac(model[n]) if n in model else Fraction(0)) if mask & (1 << i) else None for i, n in enumerate(names)]
  got = ISD._make_absolute(*a)
  want = S.interval(*a)
  return got != want, f"_make_absolute{tuple(str(x) for x in a)} = {got}, expected {want}"
