"""Native replays for C15."""
import logging


def history(start, history, **_):
  """re-run a call history on a fresh universe of real objects and judge it with the native WF checker"""
  import rtc.c15 as R
  from specs import modelwf as W
  logging.disable(logging.CRITICAL)
  R.OPS = R.ops(False)
  by_name = {n: (fn, single) for n, fn, single in R.OPS}
  u = R.U(start)
  els, docs = u.elements(), u.docs()
  lines = []
  for name in history:
    if name not in by_name:
      return False, f"operation {name!r} is not in the operation table any more"
    fn, single = by_name[name]
    before = W.fingerprint(els, docs)
    raised = None
    try:
      fn(u)
    except Exception as e:  # pylint: disable=broad-except
      raised = e
    probs = R.refine(u, W.check(els, docs, R.valid_value))
    lines.append(f"{name} -> {'raised ' + repr(raised) if raised else 'ok'}")
    if probs:
      return True, "; ".join(lines) + " | not well formed: " + "; ".join(f"[{c}] {msg}" for c, msg in probs[:6])
    if raised is not None and single and W.fingerprint(els, docs) != before:
      return True, "; ".join(lines) + " | the rejected operation changed the model"
  return False, "; ".join(lines) + " | well formed after every call"


def font_family(item_kinds, **_):
  import rtc.c15 as R
  logging.disable(logging.CRITICAL)
  fails = R.font_family_case(item_kinds)
  return bool(fails), (f"tts:fontFamily value {R.font_family_value(item_kinds)!r}: " + ("; ".join(fails) if fails else "validated and stored as required"))


def heap_cex(op, cls, model=None, obligation=None, kinds=None, **_):
  """rebuild the solver's finite heap with real objects (fields assigned directly: the state is one the representation
  invariant admits, not necessarily one a history reaches), run the operation, judge before/after natively"""
  import ttconv.model as m
  from ttconv.isd import ISD
  from specs import modelwf as W
  if op == "push_children_rollback":
    # constants of the harness: a valid pattern whose child `bad` has a parent already / belongs to another document
    pattern, bad, why = _["pattern"], _["bad"], _["why"]
    doc, other = m.ContentDocument(), m.ContentDocument()
    owner = getattr(m, cls)(doc)
    kids = [getattr(m, k)(other if (j == bad and why == "other-document") else doc) for j, k in enumerate(pattern)]
    if why == "has-parent":
      holder = {"Rb": m.Rbc, "Rt": m.Rtc, "Rp": m.Rtc, "Rbc": m.Ruby, "Rtc": m.Ruby}[pattern[bad]](doc)
      if isinstance(holder, m.Ruby):
        holder.push_children([kids[bad], m.Rtc(doc)] if pattern[bad] == "Rbc" else [m.Rbc(doc), kids[bad]])
      elif isinstance(holder, m.Rtc):
        holder.push_children([kids[bad]] if pattern[bad] == "Rt" else [kids[bad], m.Rt(doc), m.Rp(doc)])
      else:
        holder.push_child(kids[bad])
    try:
      owner.push_children(kids)
      raised = None
    except Exception as e:  # pylint: disable=broad-except
      raised = e
    got = [type(x).__name__ for x in owner]
    stray = [type(k).__name__ for j, k in enumerate(kids) if j != bad and k.parent() is not None]
    text = (f"{cls}.push_children({pattern}) with child {bad} {'already under another parent' if why == 'has-parent' else 'of another document'}: "
            f"raised {raised!r}; children of the {cls.lower()} afterwards {got}; other children left attached {stray}")
    return (raised is None) or bool(got) or bool(stray), text
  if op == "push_children" and _.get("pattern") is not None:
    # the classes of the children are constants of the harness: the call is replayed on fresh, detached children of one document
    pattern = _["pattern"]
    doc = m.ContentDocument()
    ruby = getattr(m, cls)(doc)
    kids = [getattr(m, k)(doc) for k in pattern]
    if cls == "Ruby":
      valid = pattern in (["Rb", "Rt"], ["Rb", "Rp", "Rt", "Rp"], ["Rbc", "Rtc"], ["Rbc", "Rtc", "Rtc"])
    else:
      valid = all(n == "Rt" for n in pattern) or (len(pattern) > 2 and pattern[0] == pattern[-1] == "Rp" and all(n == "Rt" for n in pattern[1:-1]))
      if pattern == ["Rp", "Rp"]:
        return False, "rp rp: both readings of TTML2 accepted"
    try:
      ruby.push_children(kids)
      raised = None
    except Exception as e:  # pylint: disable=broad-except
      raised = e
    got = [type(x).__name__ for x in ruby]
    text = f"{cls}.push_children({pattern}) on an empty {cls.lower()}: raised {raised!r}; children afterwards {got}; the pattern is {'valid' if valid else 'NOT one of the TTML2 patterns'}"
    if raised is None:
      return (not valid) or got != pattern, text
    return valid or bool(got) or any(k.parent() is not None for k in kids), text
  if not model or "objects" not in model:
    return False, f"obligation {obligation}: the solver gave no finite heap ({model})"
  kinds = kinds or []
  objs = {}
  for name, d in model["objects"].items():
    k = int(d.get("kind", "0")) if str(d.get("kind", "0")).lstrip("-").isdigit() else 0
    kn = kinds[k - 1] if 1 <= k <= len(kinds) else None
    if kn is None:
      objs[name] = None
    elif kn == "ContentDocument":
      objs[name] = m.ContentDocument()
    elif kn == "ISD":
      objs[name] = ISD(None)
    elif kn == "Text":
      objs[name] = m.Text(None, "x")
    elif kn == "Region":
      objs[name] = m.Region("tmp", None)
    elif kn == "ISD.Region":
      objs[name] = ISD.Region("tmp", None)
    else:
      objs[name] = getattr(m, kn)(None)
  ref = lambda n: None if n in (None, "null") else objs.get(n)   # noqa: E731
  idv = lambda n: None if n in (None, "none") else str(n)       # noqa: E731
  for name, d in model["objects"].items():
    o = objs[name]
    if o is None:
      continue
    if isinstance(o, m.Document):
      if isinstance(o, m.ContentDocument):
        o._body = ref(d.get("_body"))
      o._regions = {idv(i): ref(r) for i, r in (d.get("_regions") or {}).items() if ref(r) is not None and idv(i) is not None}
      continue
    for f in ("_parent", "_first_child", "_last_child", "_next_sibling", "_previous_sibling", "_doc", "_region"):
      setattr(o, f, ref(d.get(f)))
    o._id = idv(d.get("_id"))
  elements = [o for o in objs.values() if o is not None and not isinstance(o, m.Document)]
  docs = [o for o in objs.values() if isinstance(o, m.Document)]
  c = model.get("consts", {})
  me = ref(c.get("self"))
  desc = f"heap {model['objects']} with {c}"
  if me is None:
    return False, "receiver is not an object of the model: " + desc
  pre = W.check(elements, docs)
  before = W.fingerprint(elements, docs)
  args = {"push_child": ["child"], "remove_child": ["child"], "remove": [], "set_region": ["region"], "put_region": ["region"],
          "set_body": ["body"]}[op]
  try:
    getattr(me, op)(*[ref(c.get(a)) for a in args])
    raised = None
  except Exception as e:  # pylint: disable=broad-except
    raised = e
  post = W.check(elements, docs)
  text = f"{op} on {type(me).__qualname__} from the solver's heap: raised {raised!r}; well formed before: {not pre} ({pre[:2]}); after: {not post} ({post[:3]}); " + desc
  if pre:
    return False, "the solver's heap is not well formed for the native checker (stronger than the symbolic WF): " + text
  if raised is not None:
    return (W.fingerprint(elements, docs) != before), text
  return bool(post), text
