"""Native replay for C04: re-read one document with the real ttconv.imsc.reader and compare with the XML-level TTML oracle
(specs/ttml.py), or re-run one corrupted-attribute comparison."""
from fractions import Fraction


def snapshot(xml, t=None, **_):
  import rtc.c04 as R
  R.install_capture()
  res = R.evaluate(xml, None if t in (None, "None") else Fraction(t))
  if res.status == "oos":
    return False, f"outside the oracle's scope: {res.summary}"
  if res.status == "ok":
    return False, f"document read and rendered like the TTML oracle at {res.n} instant(s)\n{xml}"
  why = R.explain(xml) if res.kind.startswith("snapshot:") else None
  text = f"{res.kind}: {res.summary}\ndocument: {xml}\nttconv (to_model + ISD.from_model): {res.observed}\nTTML2/IMSC (specs/ttml.py): {res.required}"
  if why:
    text += f"\nthe difference disappears when the oracle is given the deviation '{why}'"
  return True, text


def corrupt(xml, removed, alt=None, **_):
  import rtc.c04 as R
  from rtc.common import Recorder
  R.install_capture()
  rec = Recorder("C04", "", {})
  R.check_corruption(rec, ("x", "x", xml, removed, alt, "replayed corruption", "attr"), "replay")
  if not rec.failures:
    return False, f"corrupted document behaves like the document without the attribute and a record is logged\n{xml}"
  lines = [f"{f['summary']}; observed {str(f['observed'])[:700]}; required {f['required']}" for f in rec.failures.values()]
  return True, "\n".join(lines) + f"\ncorrupted: {xml}\nwithout the attribute: {removed}"


def value(xml, name, on, expected, **_):
  import rtc.c04 as R
  import ttconv.model as m
  import ttconv.style_properties as sp
  R.install_capture()
  prop = getattr(sp.StyleProperties, name[0].upper() + name[1:])
  try:
    doc, _logs = R.read(xml)
    e = doc.get_region("x1") if on == "region" else next(x for x in doc.get_body().dfs_iterator() if isinstance(x, m.P if on == "p" else m.Span))
    got = R.model_value(e.get_style(prop))
  except Exception as ex:  # pylint: disable=broad-except
    return True, f"{type(ex).__name__}: {ex} while reading {xml}; required value {expected}"
  ok = repr(got) == expected or R._value_eq(got, eval(expected))  # pylint: disable=eval-used
  return (not ok), f"{name} read as {got!r}; TTML2 syntax gives {expected}\n{xml}"


def shape(shape, model=None, obligation=None, **_):
  """proof tier: the document shape with the solver's values for the symbolic begin / dur / end (written as tick counts)"""
  import contracts.c04 as C
  import rtc.c04 as R
  R.install_capture()
  vals = {k: Fraction(str(v).replace(" ", "")) for k, v in (model or {}).items()}
  xml = C.concretise(C.shapes()[shape], vals)
  res = R.evaluate(xml)
  if res.status == "ok":
    return False, f"{shape} with {({k: str(v) for k, v in vals.items()})}: snapshots equal the TTML oracle at {res.n} instants\n{xml}"
  if res.status == "oos":
    return False, f"outside the oracle's scope: {res.summary}"
  why = R.explain(xml) if res.kind.startswith("snapshot:") else None
  return True, (f"{shape} with {({k: str(v) for k, v in vals.items()})}: {res.kind}: {res.summary}\n{xml}\nttconv: {res.observed}\nTTML: {res.required}"
                + (f"\n(explained by the deviation '{why}')" if why else ""))


def parameter(xml, what, expected, observed=None, **_):
  import rtc.c04 as R
  from rtc.common import Recorder
  R.install_capture()
  rec = Recorder("C04", "", {})
  R.check_parameters(rec)
  for f in rec.failures.values():
    if what in f["summary"]:
      return True, f"{f['summary']}; required {f['required']}\n{xml}"
  return False, f"{what}: read as required ({expected})"
