"""Native replay for C04: re-read one document with the real ttconv.imsc.reader and compare with the XML-level TTML oracle
(specs/ttml.py), or re-run one corrupted-attribute comparison."""
from fractions import Fraction


def snapshot(xml, t=None, **_):
  import rtc.c04 as R
  R.install_capture()
  res = R.evaluate(xml, None if t in (None, "None") else Fraction(t))
  if res.status == "oos":
    return False, f"outside the oracle's scope: {res.summary}"
  if res.status == "ok":
    return False, f"document read and rendered like the TTML oracle at {res.n} instant(s)\n{xml}"
  why = R.explain(xml) if res.kind.startswith("snapshot:") else None
  text = f"{res.kind}: {res.summary}\ndocument: {xml}\nttconv (to_model + ISD.from_model): {res.observed}\nTTML2/IMSC (specs/ttml.py): {res.required}"
  if why:
    text += f"\nthe difference disappears when the oracle is given the deviation '{why}'"
  return True, text


def corrupt(xml, removed, alt=None, **_):
  import rtc.c04 as R
  from rtc.common import Recorder
  R.install_capture()
  rec = Recorder("C04", "", {})
  R.check_corruption(rec, ("x", "x", xml, removed, alt, "replayed corruption", "attr"), "replay")
  if not rec.failures:
    return False, f"corrupted document behaves like the document without the attribute and a record is logged\n{xml}"
  lines = [f"{f['summary']}; observed {str(f['observed'])[:700]}; required {f['required']}" for f in rec.failures.values()]
  return True, "\n".join(lines) + f"\ncorrupted: {xml}\nwithout the attribute: {removed}"


def value(xml, name, on, expected, **_):
  import rtc.c04 as R
  import ttconv.model as m
  import ttconv.style_properties as sp
  R.install_capture()
  prop = getattr(sp.StyleProperties, name[0].upper() + name[1:])
  try:
    doc, _logs = R.read(xml)
    e = doc.get_region("x1") if on == "region" else next(x for x in doc.get_body().dfs_iterator() if isinstance(x, m.P if on == "p" else m.Span))
    got = R.model_value(e.get_style(prop))
  except Exception as ex:  # pylint: disable=broad-except
    return True, f"{type(ex).__name__}: {ex} while reading {xml}; required value {expected}"
  ok = repr(got) == expected or R._value_eq(got, eval(expected))  # pylint: disable=eval-used
  return (not ok), f"{name} read as {got!r}; TTML2 syntax gives {expected}\n{xml}"


def shape(shape, model=None, obligation=None, **_):
  """proof tier: the document shape with the solver's values for the symbolic begin / dur / end (written as tick counts)"""
  import contracts.c04 as C
  import rtc.c04 as R
  R.install_capture()
  vals = {k: Fraction(str(v).replace(" ", "")) for k, v in (model or {}).items()}
  xml = C.concretise(C.shapes()[shape], vals)
  res = R.evaluate(xml)
  if res.status == "ok":
    return False, f"{shape} with {({k: str(v) for k, v in vals.items()})}: snapshots equal the TTML oracle at {res.n} instants\n{xml}"
  if res.status == "oos":
    return False, f"outside the oracle's scope: {res.summary}"
  why = R.explain(xml) if res.kind.startswith("snapshot:") else None
  return True, (f"{shape} with {({k: str(v) for k, v in vals.items()})}: {res.kind}: {res.summary}\n{xml}\nttconv: {res.observed}\nTTML: {res.required}"
                + (f"\n(explained by the deviation '{why}')" if why else ""))


def parameter(xml, what, expected, observed=None, **_):
  import rtc.c04 as R
  from rtc.common import Recorder
  R.install_capture()
  rec = Recorder("C04", "", {})
  R.check_parameters(rec)
  for f in rec.failures.values():
    if what in f["summary"]:
      return True, f"{f['summary']}; required {f['required']}\n{xml}"
  return False, f"{what}: read as required ({expected})"


def time_expression(syntax, model=None, obligation=None, **_):
  """proof tier `time-expression[syntax]`: the counter-model's field values printed into the expression, read natively"""
  import logging
  import xml.etree.ElementTree as et
  from fractions import Fraction
  import ttconv.imsc.reader as reader
  import ttconv.model as m
  from contracts.c04 import SYNTAXES, TT, TTP
  logging.disable(logging.CRITICAL)
  model = model or {}
  params, fps, tick = SYNTAXES[syntax]

  def g(k):
    return int(model.get(k, 0) or 0)

  def expr(p):
    kind = syntax.split("@")[0]
    if kind.startswith("clock-time"):
      base = g(p + "h") * 3600 + g(p + "m") * 60 + g(p + "s")
      if kind == "clock-time.fraction":
        return f"{g(p + 'h'):02d}:{g(p + 'm'):02d}:{g(p + 's'):02d}.{g(p + 'ms'):03d}", base + Fraction(g(p + "ms"), 1000)
      return f"{g(p + 'h'):02d}:{g(p + 'm'):02d}:{g(p + 's'):02d}:{g(p + 'ff'):02d}", base + g(p + "ff") / fps
    metric = kind.split("-")[1].split(".")[0]
    if ".fraction" in kind:
      val, text = g(p + "n") + Fraction(g(p + "d"), 1000), f"{g(p + 'n')}.{g(p + 'd'):03d}{metric}"
    else:
      val, text = Fraction(g(p + "n")), f"{g(p + 'n')}{metric}"
    if metric == "f":
      return text, val / fps
    if metric == "t":
      return text, val / tick
    return text, val * {"h": 3600, "m": 60, "s": 1, "ms": Fraction(1, 1000)}[metric]

  tb, wb = expr("b_")
  te, we = expr("e_")
  root = et.Element(f"{{{TT}}}tt", {"{http://www.w3.org/XML/1998/namespace}lang": "en", **{f"{{{TTP}}}{k}": v for k, v in params.items()}})
  p = et.SubElement(et.SubElement(et.SubElement(root, f"{{{TT}}}body"), f"{{{TT}}}div"), f"{{{TT}}}p", {"begin": tb, "end": te})
  p.text = "x"
  doc = reader.to_model(et.ElementTree(root))
  ps = [e for e in doc.get_body().dfs_iterator() if isinstance(e, m.P)] if doc is not None and doc.get_body() is not None else []
  if not wb < we:
    return False, f"begin={tb!r} end={te!r}: empty interval, nothing demanded"
  if len(ps) != 1:
    return True, f"begin={tb!r} end={te!r} ({params}): the paragraph is not read"
  gb = ps[0].get_begin() or Fraction(0)
  ge = ps[0].get_end()
  return (gb != wb or ge != we or isinstance(gb, float)), f"begin={tb!r} end={te!r} ({params}): read as [{gb!r}, {ge!r}), TTML media times [{wb}, {we})"
