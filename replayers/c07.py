"""Native replay for C07: the writer output of a regenerated document under the strict grammar / style / settings contracts,
and the text helpers of SrtParagraph / VttCue on one string."""


def replay(gen, config, **_):
  from replayers import c06
  return c06.replay(gen, config, prop="C07")


def helpers(cls, text, **_):
  from ttconv.srt.paragraph import SrtParagraph
  from ttconv.vtt.cue import VttCue
  from specs import cues as C
  k = {"SrtParagraph": SrtParagraph, "VttCue": VttCue}[cls]
  p = k(1)
  p.append_text(text)
  blank = p.is_only_whitespace() if cls == "SrtParagraph" else p.is_only_whitespace_or_empty()
  p.normalize_eol()
  out = p._text   # pylint: disable=protected-access
  lines = C.split_lines(out)
  want = C.text_of(C.line_form([(c, None) for c in text]))
  got = C.text_of(C.line_form([(c, None) for c in out]))
  bad = []
  if want != got:
    bad.append(f"text lines changed: {got!r}, required {want!r}")
  if out and "" in lines:
    bad.append(f"empty line in the normalized payload (lines {lines})")
  if bool(blank) != C.is_blank(text):
    bad.append(f"blank test says {blank}")
  msg = f"{cls}: append_text({text!r}); normalize_eol() -> {out!r}; " + ("; ".join(bad) if bad else "contracts hold")
  return bool(bad), msg
