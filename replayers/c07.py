"""Native replay for C07: the writer output of a regenerated document under the strict grammar / style / settings contracts,
and the text helpers of SrtParagraph / VttCue on one string."""


def replay(gen, config, **_):
  from replayers import c06
  return c06.replay(gen, config, prop="C07")


def helpers(cls, text, **_):
  from ttconv.srt.paragraph import SrtParagraph
  from ttconv.vtt.cue import VttCue
  from specs import cues as C
  k = {"SrtParagraph": SrtParagraph, "VttCue": VttCue}[cls]
  p = k(1)
  p.append_text(text)
  blank = p.is_only_whitespace() if cls == "SrtParagraph" else p.is_only_whitespace_or_empty()
  p.normalize_eol()
  out = p._text   # pylint: disable=protected-access
  lines = C.split_lines(out)
  want = C.text_of(C.line_form([(c, None) for c in text]))
  got = C.text_of(C.line_form([(c, None) for c in out]))
  bad = []
  if want != got:
    bad.append(f"text lines changed: {got!r}, required {want!r}")
  if out and "" in lines:
    bad.append(f"empty line in the normalized payload (lines {lines})")
  if bool(blank) != C.is_blank(text):
    bad.append(f"blank test says {blank}")
  msg = f"{cls}: append_text({text!r}); normalize_eol() -> {out!r}; " + ("; ".join(bad) if bad else "contracts hold")
  return bool(bad), msg


def region_and_p(isd, top, height, display_align, text_align=None, direction=None):
  """an ISD region with a computed position / extent / displayAlign and a paragraph `x` with the given alignment"""
  import ttconv.model as m
  import ttconv.style_properties as sp
  from ttconv.isd import ISD
  SP = sp.StyleProperties
  region = ISD.Region("r1", isd)
  region.set_style(SP.DisplayAlign, display_align)
  region.set_style(SP.Position, sp.PositionType(h_offset=sp.LengthType(10, sp.LengthType.Units.rw), v_offset=sp.LengthType(top, sp.LengthType.Units.rh)))
  region.set_style(SP.Extent, sp.ExtentType(height=sp.LengthType(height, sp.LengthType.Units.rh), width=sp.LengthType(80, sp.LengthType.Units.rw)))
  p = m.P(isd)
  if text_align is not None:
    p.set_style(SP.TextAlign, text_align)
  if direction is not None:
    p.set_style(SP.Direction, direction)
  s = m.Span(isd)
  s.push_child(m.Text(isd, "x"))
  p.push_child(s)
  return region, p


def _frac(x):
  from fractions import Fraction
  return Fraction(str(x))


def to_string(kind, model=None, obligation="", **_):
  """SrtParagraph / VttCue.to_string on the begin / end of a counter-model"""
  from ttconv.srt.paragraph import SrtParagraph
  from ttconv.vtt.cue import VttCue
  model = model or {}
  b, e = _frac(model.get("b", 0)), _frac(model.get("e", 0))
  p = (SrtParagraph if kind == "srt" else VttCue)(7)
  p.set_begin(b)
  p.set_end(e)
  p.append_text("x")
  rb, re_ = round(b * 1000), round(e * 1000)
  try:
    out = p.to_string()
  except ValueError as err:
    bad = not re_ <= rb or e - b > _frac("1/1000")
    return bad, f"{kind} to_string(begin={b}, end={e}) raised {err!r}; rounded times {rb} ms, {re_} ms"
  import re
  ts = [int(x) for x in re.findall(r"[0-9]+", out.split("\n")[1])]
  got_b = ((ts[0] * 60 + ts[1]) * 60 + ts[2]) * 1000 + ts[3]
  got_e = ((ts[4] * 60 + ts[5]) * 60 + ts[6]) * 1000 + ts[7]
  bad = (got_b, got_e) != (rb, re_) or not rb < re_
  return bad, f"{kind} to_string(begin={b}, end={e}) = {out!r}; rounded times {rb} ms, {re_} ms"


def line(display_align, model=None, **_):
  from fractions import Fraction
  import ttconv.style_properties as sp
  from ttconv.isd import ISD
  from ttconv.vtt.writer import VttContext
  from ttconv.vtt.config import VTTWriterConfiguration
  model = model or {}
  top, h = _frac(model.get("top", 0)), _frac(model.get("height", 0))
  da = sp.DisplayAlignType(display_align)
  region, p = region_and_p(ISD(None), top, h, da)   # pylint: disable=protected-access
  vtt = VttContext(VTTWriterConfiguration(line_position=True))
  vtt.process_p(region, p, Fraction(0), Fraction(1))
  cue = vtt._paragraphs[-1]    # pylint: disable=protected-access
  want = {"before": top, "after": top + h, "center": top + h / 2}[display_align]
  bad = abs(cue.get_line() - want) > Fraction(1, 2) or not 0 <= cue.get_line() <= 100
  return bad, f"region top {top}% height {h}% displayAlign {display_align}: cue {str(cue)!r}; required line within 0.5 of {want}"


def align(**_):
  from fractions import Fraction
  import ttconv.style_properties as sp
  from ttconv.isd import ISD
  from ttconv.vtt.writer import VttContext
  from ttconv.vtt.config import VTTWriterConfiguration
  table = {("center", "ltr"): "center", ("center", "rtl"): "center", ("start", "ltr"): "left", ("start", "rtl"): "right",
           ("end", "ltr"): "right", ("end", "rtl"): "left"}
  bad = []
  for (ta, di), want in table.items():
    region, p = region_and_p(ISD(None), 10, 10, sp.DisplayAlignType.after, sp.TextAlignType(ta), sp.DirectionType(di))   # pylint: disable=protected-access
    vtt = VttContext(VTTWriterConfiguration(text_align=True, cue_id=False))
    vtt.process_p(region, p, Fraction(0), Fraction(1))
    line = str(vtt._paragraphs[-1]).split("\n")[0]    # pylint: disable=protected-access
    if not line.endswith(f" align:{want}"):
      bad.append(f"textAlign {ta} direction {di}: {line!r}, required align:{want}")
  return bool(bad), "; ".join(bad) if bad else "align follows textAlign x direction for all six combinations"


def shape(fmt="srt", shape="styled", mask=(), model=None, obligation=None, **_):
  """proof tier `<fmt>.writer.grammar+tags[shape:mask]`: the counter-model's timing values on the shape, natively"""
  import logging
  from fractions import Fraction
  import rtc.cues_common as P
  from rtc.common import Recorder
  from rtc import docgen
  from specs.isd_shapes import SHAPES
  logging.disable(logging.CRITICAL)
  model = model or {}
  vals = {k: Fraction(str(model.get(k, 0) or 0)) for k in mask}
  doc = SHAPES[shape](lambda n: vals.get(n))
  rec = Recorder("C07", "", {})
  info = (0, 0, 0, "shape:" + shape)
  fmt = "vtt:line:align" if fmt == "vtt:line" else fmt
  P.check_doc(rec, "C07", doc, info, [fmt])
  text, err = P.run_writer(doc, fmt)
  lines = [f"shape {shape} with {dict((k, str(v)) for k, v in vals.items())}: {docgen.describe(doc, 900)}", f"writer raised {err!r}" if err is not None else "writer output:\n" + text]
  if rec.failures or err is not None:
    return True, "\n".join(lines + [f"FAILED [{k}] {v['summary'][:400]}" for k, v in rec.failures.items()])
  return False, "\n".join(lines + ["all contracts of C07 hold on this document"])
