"""Native replay for C16: rebuild the document from its generator coordinates, apply the real LCDDocFilter with the recorded
configuration and re-evaluate the run-time contracts of rtc/c16.py; for the proof tier, run the real filter on the one-region
document of contracts/c16.py with the safe area of the counter-model."""
import logging


def replay(gen, cfg, key=None, **_):
  import rtc.c16 as R
  from rtc.common import Recorder
  from rtc import docgen
  logging.disable(logging.CRITICAL)
  gen = tuple(gen)
  rec = Recorder("C16", "", {})
  R.check_doc(rec, gen, dict(cfg))
  doc = R.gen_doc(gen)
  text = f"LCDDocFilter({cfg}) on document {docgen.describe(doc, 1200)}"
  fails = {k: v for k, v in rec.failures.items() if key is None or k == key} or rec.failures
  if fails:
    return True, text + " | " + " || ".join(f"[{k}] {v['summary'].split('; config ')[0][:500]}" for k, v in fails.items())
  return False, text + " | all contracts of C16 hold on this document and configuration"


def safe_area(shape=None, model=None, obligation=None, **_):
  """proof tier: the one-region document of contracts/c16.py with the integer safe area of the counter-model"""
  import specs.lcd_shapes as C
  import ttconv.style_properties as sp
  from ttconv.filters.doc.lcd import LCDDocFilter, LCDDocFilterConfig
  logging.disable(logging.CRITICAL)
  SP = sp.StyleProperties
  sa = None
  for k, v in (model or {}).items():
    if k.startswith("sa"):
      sa = int(str(v))
  cands = [sa] if sa is not None else list(range(0, 31))
  for s in cands:
    doc = C.SHAPES[shape]()
    try:
      LCDDocFilter(LCDDocFilterConfig(safe_area=s, **C.CONFIG.get(shape, {}))).process(doc)
    except Exception as e:  # pylint: disable=broad-except
      return True, f"shape {shape}, safe_area={s}: LCDDocFilter.process raised {e!r}"
    for reg in doc.iter_regions():
      o, x = reg.get_style(SP.Origin), reg.get_style(SP.Extent)
      got = (o.x.value, o.x.units.value, o.y.value, o.y.units.value, x.width.value, x.width.units.value, x.height.value, x.height.units.value)
      want = (s, "%", s, "%", 100 - 2 * s, "%", 100 - 2 * s, "%")
      if got != want:
        return True, f"shape {shape}, safe_area={s}: region {reg.get_id()} ends with origin/extent {got}, required {want}"
      if list(reg.iter_animation_steps()) or reg.get_style(SP.Position) is not None:
        return True, f"shape {shape}, safe_area={s}: region {reg.get_id()} keeps animation steps or tts:position"
  return False, f"shape {shape}: every region ends at the safe area for safe_area in {cands}"


def align(da=None, model=None, **_):
  """proof tier: one region with origin y% / extent h% of the counter-model; native re-evaluation of the alignment contract"""
  from fractions import Fraction
  import specs.lcd_shapes as C
  from specs import lcd as O
  import ttconv.style_properties as sp
  from ttconv.filters.doc.lcd import LCDDocFilter, LCDDocFilterConfig
  logging.disable(logging.CRITICAL)
  SP, L, U = sp.StyleProperties, sp.LengthType, sp.LengthType.Units
  mdl = {k: Fraction(str(v)) for k, v in (model or {}).items()}
  y, h, sa = mdl.get("y", Fraction(0)), mdl.get("h", Fraction(100)), int(mdl.get("sa", 10))
  doc, (r1,) = C._doc(1)
  r1.set_style(SP.Origin, sp.CoordinateType(x=L(10, U.pct), y=L(y, U.pct)))
  r1.set_style(SP.Extent, sp.ExtentType(height=L(h, U.pct), width=L(80, U.pct)))
  if da is not None:
    r1.set_style(SP.DisplayAlign, sp.DisplayAlignType(da))
  try:
    LCDDocFilter(LCDDocFilterConfig(safe_area=sa)).process(doc)
  except Exception as e:  # pylint: disable=broad-except
    return True, f"region origin y={y}% extent h={h}% displayAlign={da}: LCDDocFilter.process raised {e!r}"
  res = r1.get_style(SP.DisplayAlign)
  want = O.align_options("lrtb", da or "before", (y, h))
  text = f"region origin y={y}% extent h={h}% displayAlign={da or 'before (default)'}, safe_area={sa}: resulting displayAlign {res}, acceptable {sorted(want)}"
  return (res is None or res.value not in want), text


def timeline(shape, mask=(), cfg=None, model=None, obligation=None, **_):
  """proof tier `timeline[shape:mask;cfg]`: the counter-model's timing values and query time, natively"""
  import logging
  from fractions import Fraction
  import ttconv.model as m
  import ttconv.style_properties as sp
  from ttconv.isd import ISD
  import ttconv.filters.doc.lcd as LCD
  from specs.isd_shapes import SHAPES
  logging.disable(logging.CRITICAL)
  model = model or {}
  vals = {k: Fraction(str(model.get(k, 0) or 0)) for k in mask}
  t = Fraction(str(model.get("t", 0) or 0))
  kw = {k: (sp.ColorType(tuple(v)) if isinstance(v, list) else v) for k, v in (cfg or {}).items()}

  def text(doc):
    isd = ISD.from_model(doc, t)
    return "".join(e.get_text() if isinstance(e, m.Text) else "\n" for r in isd.iter_regions() for e in r.dfs_iterator() if isinstance(e, (m.Text, m.Br)))
  a = SHAPES[shape](lambda n: vals.get(n))
  before = text(a)
  b = SHAPES[shape](lambda n: vals.get(n))
  try:
    LCD.LCDDocFilter(LCD.LCDDocFilterConfig(**kw)).process(b)
    after = text(b)
  except Exception as e:  # pylint: disable=broad-except
    return True, f"shape {shape} with {vals} at t={t}: {type(e).__name__}: {e}"
  left = [e for e in list(b.iter_regions()) + list(b.get_body().dfs_iterator()) if not isinstance(e, m.Text) and list(e.iter_animation_steps())]
  return (before != after or bool(left)), f"shape {shape} with {dict((k, str(v)) for k, v in vals.items())} at t={t}: text before {before!r}, after {after!r}; elements with animation steps left: {len(left)}"
