"""Native replay for C08: read one SCC text with the real ttconv.scc.reader.to_model, list the paragraphs it produces and compare
the document frame by frame with the reference CEA-608 decoder (specs/ref608.py)."""
import logging


def stream(scc, config=None, **_):
  logging.disable(logging.CRITICAL)
  import rtc.c08 as C
  from ttconv.scc.reader import to_model
  out = [f"SCC ({'text_align=' + config if config else 'default configuration'}):", scc.strip(), ""]
  try:
    doc = to_model(scc, C.config_of(config))
  except Exception as e:  # pylint: disable=broad-except
    return True, "\n".join(out) + f"\nto_model raised {e!r}"
  ref = C.RefRun(scc)
  run = C.DocRun(doc, ref.fps)
  out.append(f"document (frame numbers at {ref.fps} fps; the first word is received in frame {ref.recv[0] if ref.recv else '-'}):")
  for (b, e, first_row, lines, pid) in run.paras:
    rows = {first_row + i: "".join(c[0] for (_, _, cs) in ln for c in cs) for i, ln in enumerate(lines)}
    out.append(f"  {pid}: frames [{b}, {e if e is not None else 'end'}) rows {rows}")
  out.append("reference decoder (frame in which the word is received, word class, displayed memory when it changes):")
  last = None
  for i in range(len(ref.recv)):
    if ref.version[i] != last:
      last = ref.version[i]
      out.append(f"  frame {ref.recv[i]} word {i} [{ref.tag[i]}] -> {C.show_ref(ref.snap[last])}")
  fails, info = C.evaluate(scc, config)
  if not fails:
    return False, "\n".join(out) + f"\nall contracts hold (events take effect {info.get('D')} frame(s) after reception)"
  out.append("failed contracts:")
  for (key, contract, summary, observed, required) in fails:
    out.append(f"  [{key}] {contract}: {summary}")
  return True, "\n".join(out)


def doubling(scc, scc_doubled, config=None, **_):
  """metamorphic contract `doubled control codes act once`: the two streams, natively"""
  logging.disable(logging.CRITICAL)
  import rtc.c08 as C
  f = C.evaluate_doubling(scc, scc_doubled, config)
  head = f"SCC, every control pair once:\n{scc.strip()}\n\nSCC, every control pair twice:\n{scc_doubled.strip()}\n"
  if f is None:
    return False, head + "\nboth streams show the same sequence of screens"
  return True, head + f"\n[{f[0]}] {f[2]}"


def times(shape, kind, model=None, obligation=None, **_):
  """native replay of a proof-tier counter-model: the shape's lines with the solver's time code labels, read by the real reader;
  the same clauses (specs/scc_shapes.py) evaluated on the document"""
  logging.disable(logging.CRITICAL)
  from fractions import Fraction
  import ttconv.model as m
  from ttconv.scc.reader import to_model
  from specs import scc_shapes as SS, smpte
  model = model or {}
  pre = "ndf_" if kind == "ndf" else "df_"
  sep = ":" if kind == "ndf" else ";"
  rate = SS.RATES[kind]
  text, counts, labels = "Scenarist_SCC V1.0\n\n", [], []
  for i, words in enumerate(SS.SHAPES[shape]["lines"]):
    h, mi, s, f = (int(model.get(f"L{i}_{pre}{x}", 0) or 0) for x in "hmsf")
    labels.append(f"{h:02d}:{mi:02d}:{s:02d}{sep}{f:02d}")
    counts.append(smpte.count(h, mi, s, f, rate))
    text += f"{labels[-1]}\t{words}\n\n"
  try:
    doc = to_model(text)
  except Exception as e:  # pylint: disable=broad-except
    return True, f"{text!r}: to_model raised {e!r}"
  exact = lambda v: isinstance(v, (int, Fraction)) and not isinstance(v, float)    # noqa: E731
  failed = [(n, note) for n, cond, note in SS.clauses(shape, kind, doc, counts, m, exact) if not bool(cond)]
  ps = SS.paragraphs(doc, m)
  desc = "; ".join(f"p{i} {SS.text_of(p, m)!r} frames [{p.get_begin() * rate if p.get_begin() is not None else None}, "
                   f"{p.get_end() * rate if p.get_end() is not None else None})" for i, p in enumerate(ps))
  head = f"lines at {labels} (frame counts {counts}): {desc}"
  want = obligation.split("/")[-1].split("[")[0] if obligation else None
  if failed:
    return True, head + " | failed clauses: " + "; ".join(f"{n} {note}".strip() for n, note in failed)
  return False, head + " | every clause holds" + (f" (the obligation was {want})" if want else "")


def alignment(scc, config=None, **_):
  """metamorphic contract `text_align changes alignment only`: the paragraphs with and without the configuration, natively"""
  logging.disable(logging.CRITICAL)
  import rtc.c08 as C
  f = C.evaluate_alignment(scc, config)
  out = ["SCC:", scc.strip(), "", f"paragraphs without a configuration: {C.raw_paragraphs(scc, None)!r}", f"paragraphs with text_align={config}: {C.raw_paragraphs(scc, config)!r}"]
  if f is None:
    return False, "\n".join(out) + "\nidentical"
  return True, "\n".join(out) + "\n" + f[2]


def cells(kind, model=None, obligation=None, **_):
  """the cell coordinates of the counter-model (and the whole 608 grid) through the real convert_cells_to_percentages"""
  from fractions import Fraction
  import ttconv.scc.utils as U
  import ttconv.style_properties as S
  from ttconv.model import CellResolutionType
  m = {k: int(str(v)) for k, v in (model or {}).items() if str(v).lstrip("-").isdigit()}
  res = CellResolutionType(rows=15, columns=32)
  pts = [(m.get("x", 0), m.get("y", 0))] + [(x, y) for x in range(-2, 40) for y in range(-2, 20)]
  bad = []

  def conv(x, y):
    arg = U.get_position_from_offsets(x, y) if kind == "origin" else U.get_extent_from_dimensions(x, y)
    out = U.convert_cells_to_percentages(arg, res)
    a, b = (out.x, out.y) if kind == "origin" else (out.width, out.height)
    return a, b

  for x, y in pts:
    try:
      a, b = conv(x, y)
      _, b2 = conv(x, y + 1)
    except Exception as e:      # pylint: disable=broad-except
      bad.append(f"({x},{y}): {type(e).__name__}: {e}")
      continue
    want = (round(Fraction(100 * x, 32)), round(Fraction(100 * y, 15)))
    if (a.value, b.value) != want or a.units is not S.LengthType.Units.pct or b.units is not S.LengthType.Units.pct or not b2.value > b.value:
      bad.append(f"({x},{y}) cells -> ({a.value}{a.units.value},{b.value}{b.units.value}), next row {b2.value}; nearest integers are {want}")
    if len(bad) >= 3:
      break
  return bool(bad), "\n".join(bad) or "no cell coordinate of the grid is converted wrongly by this tree"


def box(rows, indents=None, model=None, obligation=None, **_):
  """the indents / safe-area offsets of the counter-model (and a grid of others) through the real SccCaptionParagraph"""
  import itertools
  from ttconv.scc.caption_paragraph import SccCaptionParagraph
  m = {k: int(str(v)) for k, v in (model or {}).items() if str(v).lstrip("-").isdigit()}
  texts = ["ab", "cdefg", "h"][:len(rows)]
  cases = [(list(indents or [0] * len(rows)), m.get("sx", 0), m.get("sy", 0))]
  cases += [(list(ind), sx, sy) for ind in itertools.product((0, 1, 5, 31), repeat=len(rows)) for sx, sy in ((0, 0), (4, 2))]
  bad = []
  for ind, sx, sy in cases:
    try:
      p = SccCaptionParagraph(sx, sy)
      for r, i, t in zip(rows, ind, texts):
        p.set_cursor_at(r, i)
        p.append_text(t)
      o, e, lines = p.get_origin(), p.get_extent(), p.get_lines()
      got = (o.x.value, o.y.value, e.width.value, e.height.value, sorted((r, ln.get_row(), ln.get_indent(), ln.get_length()) for r, ln in lines.items()))
    except Exception as ex:      # pylint: disable=broad-except
      bad.append(f"rows {rows} indents {ind} safe area ({sx},{sy}): {type(ex).__name__}: {ex}")
      continue
    want = (min(ind) + sx, min(rows) - 1 + sy, max(len(t) for t in texts), max(rows) - min(rows) + 1,
            sorted((r, r, i, len(t)) for r, i, t in zip(rows, ind, texts)))
    if got != want:
      bad.append(f"rows {rows} indents {ind} safe area ({sx},{sy}): origin/extent/lines {got}, expected {want}")
    if len(bad) >= 3:
      break
  return bool(bad), "\n".join(bad) or "no paragraph of the grid gets a wrong box on this tree"
