"""EBU Tech 3264 (EBU STL) -- the oracle of C09, written from the format description and the property statement,
independently of ttconv (stdlib only; the SMPTE label arithmetic is the C12 oracle specs/smpte.py).

`spec_stl(data, config, reading)` returns, for one byte-level STL file and one reader configuration, the subtitles that
have to come out: per paragraph (a plain subtitle, or a cumulative set CS 1,2..,3) the members with begin/end as exact
Fractions and their text as lines of cells (character alternatives, separation from the previous character, foreground,
background, italic, underline), the admissible text alignments and the data the region rule needs.

Where Tech 3264 (or the property statement) leaves a choice the oracle does not pick one: `READINGS` enumerates the
globally consistent readings and the harness accepts a file if ONE reading explains everything that was observed.

  rate30      STL30.01 is "30 frames/s" in Tech 3264; in practice 30/1.001 with drop-frame labels.  Both accepted.
  ext         text of an extension chain: each block's TF up to its first unused-space byte, concatenated ('per-block'),
              or the TFs concatenated and cut at the first unused-space byte ('concat', the literal statement).
  open_reset  open subtitles: attributes carry over a newline, or are reset as on a teletext row.  (Teletext rows always
              start white on black, non-italic, non-underlined: spacing attributes end with the row.)
"""
from fractions import Fraction
import itertools
import unicodedata

from specs import smpte

GSI_SIZE = 1024
TTI_SIZE = 128
TF_SIZE = 112

NEWLINE = 0x8A
FILLER = 0x8F

SAFE_LEFT, SAFE_TOP, SAFE_WIDTH, SAFE_HEIGHT = 5, 10, 90, 80     # title-safe area in % of the root container

# ---------------------------------------------------------------------------------------------------------------------
# GSI / TTI layout (Tech 3264 section 4 and 5)

DFC_RATES = {
  b"STL23.01": [("24000/1001", Fraction(24000, 1001))],      # de-facto code, non-drop labels at nominal 24
  b"STL24.01": [("24", Fraction(24))],
  b"STL25.01": [("25", Fraction(25))],
  b"STL30.01": [("30000/1001", Fraction(30000, 1001)), ("30", Fraction(30))],
  b"STL50.01": [("50", Fraction(50))],
}

CCT_CODECS = {b"00": None, b"01": "iso8859_5", b"02": "iso8859_6", b"03": "iso8859_7", b"04": "iso8859_8"}

READINGS = [dict(rate30=r, ext=e, open_reset=o)
            for r in (0, 1) for e in ("per-block", "concat") for o in (False, True)]


def parse_gsi(gsi: bytes) -> dict:
  assert len(gsi) == GSI_SIZE
  return {
    "CPN": gsi[0:3], "DFC": gsi[3:11], "DSC": gsi[11:12], "CCT": gsi[12:14], "LC": gsi[14:16],
    "TNB": gsi[238:243], "TNS": gsi[243:248], "TNG": gsi[248:251], "MNC": gsi[251:253], "MNR": gsi[253:255],
    "TCS": gsi[255:256], "TCP": gsi[256:264], "TCF": gsi[264:272],
  }


def parse_tti(b: bytes) -> dict:
  assert len(b) == TTI_SIZE
  return {
    "SGN": b[0], "SN": b[1] | (b[2] << 8), "EBN": b[3], "CS": b[4],
    "TCI": tuple(b[5:9]), "TCO": tuple(b[9:13]), "VP": b[13], "JC": b[14], "CF": b[15], "TF": bytes(b[16:128]),
  }


def is_teletext(dsc: bytes) -> bool:
  return dsc in (b"1", b"2")


# ---------------------------------------------------------------------------------------------------------------------
# character code tables

# ISO 6937 non-spacing diacritical marks 0xC1..0xCF (they PRECEDE the base letter), with the letters of the ISO 6937
# repertoire for each of them.  0xC9 and 0xCC are not used (umlaut/underline of the 1983 edition).
DIACRITICS = {
  0xC1: ("\u0300", "AEIOUaeiou"),                               # grave
  0xC2: ("\u0301", "ACEILNORSUYZacegilnorsuyz"),                # acute
  0xC3: ("\u0302", "ACEGHIJOSUWYaceghijosuwy"),                 # circumflex
  0xC4: ("\u0303", "AINOUainou"),                               # tilde
  0xC5: ("\u0304", "AEIOUaeiou"),                               # macron
  0xC6: ("\u0306", "AGUagu"),                                   # breve
  0xC7: ("\u0307", "CEGIZcegz"),                                # dot above
  0xC8: ("\u0308", "AEIOUYaeiouy"),                             # diaeresis
  0xCA: ("\u030A", "AUau"),                                     # ring above
  0xCB: ("\u0327", "CGKLNRSTcgklnrst"),                         # cedilla
  0xCD: ("\u030B", "OUou"),                                     # double acute
  0xCE: ("\u0328", "AEIUaeiu"),                                 # ogonek
  0xCF: ("\u030C", "CDELNRSTZcdelnrstz"),                       # caron
}

# diacritic followed by SPACE = the free-standing (spacing) accent; grave, circumflex and tilde are ASCII characters
SPACING = {0xC2: "\u00B4", 0xC5: "\u00AF", 0xC6: "\u02D8", 0xC7: "\u02D9", 0xC8: "\u00A8", 0xCA: "\u02DA",
           0xCB: "\u00B8", 0xCD: "\u02DD", 0xCE: "\u02DB", 0xCF: "\u02C7"}


def iso6937_pair(d: int, b: int):
  """accepted characters for diacritic byte d followed by byte b; None = not in the repertoire (nothing demanded)"""
  if d not in DIACRITICS:
    return None
  mark, letters = DIACRITICS[d]
  ch = chr(b)
  if b == 0x20:
    return (SPACING[d],) if d in SPACING else None
  if ch not in letters:
    return None
  c = unicodedata.normalize("NFC", ch + mark)
  if d == 0xC2 and ch == "g":
    # ISO 6937 writes small g with cedilla with the accent ABOVE the letter; tables map C2 'g' to U+0123 or to U+01F5
    return ("\u0123", "\u01F5")
  assert len(c) == 1, (hex(d), ch)
  return (c,)


def iso6937_pairs():
  """every (diacritic byte, letter byte) of the repertoire: 156 letter pairs"""
  for d, (_, letters) in sorted(DIACRITICS.items()):
    for ch in letters:
      yield d, ord(ch)


# single-byte part 0xA0..0xFF of ISO 6937 / Tech 3264 appendix 2 (Latin).  A tuple lists every code point I accept where
# Unicode offers look-alikes or the editions differ; positions that are absent are unassigned (nothing demanded).
ISO6937_SINGLE = {
  0xA0: ("\u00A0",),   # NO-BREAK SPACE
  0xA1: ("\u00A1",),   # INVERTED EXCLAMATION MARK
  0xA2: ("\u00A2",),   # CENT SIGN
  0xA3: ("\u00A3",),   # POUND SIGN
  0xA4: ("\u0024", "\u00A4",),   # DOLLAR SIGN / CURRENCY SIGN
  0xA5: ("\u00A5",),   # YEN SIGN
  0xA7: ("\u00A7",),   # SECTION SIGN
  0xA8: ("\u00A4",),   # CURRENCY SIGN
  0xA9: ("\u2018",),   # LEFT SINGLE QUOTATION MARK
  0xAA: ("\u201C",),   # LEFT DOUBLE QUOTATION MARK
  0xAB: ("\u00AB",),   # LEFT-POINTING DOUBLE ANGLE QUOTATION MARK
  0xAC: ("\u2190",),   # LEFTWARDS ARROW
  0xAD: ("\u2191",),   # UPWARDS ARROW
  0xAE: ("\u2192",),   # RIGHTWARDS ARROW
  0xAF: ("\u2193",),   # DOWNWARDS ARROW
  0xB0: ("\u00B0",),   # DEGREE SIGN
  0xB1: ("\u00B1",),   # PLUS-MINUS SIGN
  0xB2: ("\u00B2",),   # SUPERSCRIPT TWO
  0xB3: ("\u00B3",),   # SUPERSCRIPT THREE
  0xB4: ("\u00D7",),   # MULTIPLICATION SIGN
  0xB5: ("\u00B5", "\u03BC",),   # MICRO SIGN / GREEK SMALL LETTER MU
  0xB6: ("\u00B6",),   # PILCROW SIGN
  0xB7: ("\u00B7",),   # MIDDLE DOT
  0xB8: ("\u00F7",),   # DIVISION SIGN
  0xB9: ("\u2019",),   # RIGHT SINGLE QUOTATION MARK
  0xBA: ("\u201D",),   # RIGHT DOUBLE QUOTATION MARK
  0xBB: ("\u00BB",),   # RIGHT-POINTING DOUBLE ANGLE QUOTATION MARK
  0xBC: ("\u00BC",),   # VULGAR FRACTION ONE QUARTER
  0xBD: ("\u00BD",),   # VULGAR FRACTION ONE HALF
  0xBE: ("\u00BE",),   # VULGAR FRACTION THREE QUARTERS
  0xBF: ("\u00BF",),   # INVERTED QUESTION MARK
  0xD0: ("\u2015", "\u2014", "\u2500",),   # HORIZONTAL BAR / EM DASH / BOX DRAWINGS LIGHT HORIZONTAL
  0xD1: ("\u00B9",),   # SUPERSCRIPT ONE
  0xD2: ("\u00AE",),   # REGISTERED SIGN
  0xD3: ("\u00A9",),   # COPYRIGHT SIGN
  0xD4: ("\u2122",),   # TRADE MARK SIGN
  0xD5: ("\u266A",),   # EIGHTH NOTE
  0xD6: ("\u00AC",),   # NOT SIGN
  0xD7: ("\u00A6",),   # BROKEN BAR
  0xDC: ("\u215B",),   # VULGAR FRACTION ONE EIGHTH
  0xDD: ("\u215C",),   # VULGAR FRACTION THREE EIGHTHS
  0xDE: ("\u215D",),   # VULGAR FRACTION FIVE EIGHTHS
  0xDF: ("\u215E",),   # VULGAR FRACTION SEVEN EIGHTHS
  0xE0: ("\u2126", "\u03A9",),   # OHM SIGN / GREEK CAPITAL LETTER OMEGA
  0xE1: ("\u00C6",),   # LATIN CAPITAL LETTER AE
  0xE2: ("\u0110", "\u00D0",),   # LATIN CAPITAL LETTER D WITH STROKE / LATIN CAPITAL LETTER ETH
  0xE3: ("\u00AA",),   # FEMININE ORDINAL INDICATOR
  0xE4: ("\u0126",),   # LATIN CAPITAL LETTER H WITH STROKE
  0xE6: ("\u0132",),   # LATIN CAPITAL LIGATURE IJ
  0xE7: ("\u013F",),   # LATIN CAPITAL LETTER L WITH MIDDLE DOT
  0xE8: ("\u0141",),   # LATIN CAPITAL LETTER L WITH STROKE
  0xE9: ("\u00D8",),   # LATIN CAPITAL LETTER O WITH STROKE
  0xEA: ("\u0152",),   # LATIN CAPITAL LIGATURE OE
  0xEB: ("\u00BA",),   # MASCULINE ORDINAL INDICATOR
  0xEC: ("\u00DE",),   # LATIN CAPITAL LETTER THORN
  0xED: ("\u0166",),   # LATIN CAPITAL LETTER T WITH STROKE
  0xEE: ("\u014A",),   # LATIN CAPITAL LETTER ENG
  0xEF: ("\u0149",),   # LATIN SMALL LETTER N PRECEDED BY APOSTROPHE
  0xF0: ("\u0138",),   # LATIN SMALL LETTER KRA
  0xF1: ("\u00E6",),   # LATIN SMALL LETTER AE
  0xF2: ("\u0111",),   # LATIN SMALL LETTER D WITH STROKE
  0xF3: ("\u00F0",),   # LATIN SMALL LETTER ETH
  0xF4: ("\u0127",),   # LATIN SMALL LETTER H WITH STROKE
  0xF5: ("\u0131",),   # LATIN SMALL LETTER DOTLESS I
  0xF6: ("\u0133",),   # LATIN SMALL LIGATURE IJ
  0xF7: ("\u0140",),   # LATIN SMALL LETTER L WITH MIDDLE DOT
  0xF8: ("\u0142",),   # LATIN SMALL LETTER L WITH STROKE
  0xF9: ("\u00F8",),   # LATIN SMALL LETTER O WITH STROKE
  0xFA: ("\u0153",),   # LATIN SMALL LIGATURE OE
  0xFB: ("\u00DF",),   # LATIN SMALL LETTER SHARP S
  0xFC: ("\u00FE",),   # LATIN SMALL LETTER THORN
  0xFD: ("\u0167",),   # LATIN SMALL LETTER T WITH STROKE
  0xFE: ("\u014B",),   # LATIN SMALL LETTER ENG
  0xFF: ("\u00AD",),   # SOFT HYPHEN
}


def iso6937_single(b: int):
  if 0x20 <= b <= 0x7E:
    if b == 0x24:
      return ("$", "\u00A4")        # 2/4 is the currency sign in ISO 6937-2:1983 and the dollar sign since
    return (chr(b),)
  return ISO6937_SINGLE.get(b)


def iso8859_single(codec: str, b: int):
  """Python's codec is the reference for ISO 8859-5/6/7/8; None = unassigned position"""
  try:
    return (bytes([b]).decode(codec),)
  except UnicodeDecodeError:
    return None


def defined_character_bytes(cct: bytes):
  """single bytes of the character ranges 0x20..0x7E, 0xA0..0xFF that have a defined, stand-alone meaning under `cct`"""
  codec = CCT_CODECS[cct]
  out = []
  for b in list(range(0x20, 0x7F)) + list(range(0xA0, 0x100)):
    if codec is None:
      if iso6937_single(b) is not None:
        out.append(b)
    elif iso8859_single(codec, b) is not None:
      out.append(b)
  return out


# ---------------------------------------------------------------------------------------------------------------------
# text field

WHITE, BLACK = (255, 255, 255, 255), (0, 0, 0, 255)
TRANSPARENT = "transparent"             # any colour with alpha 0
ALPHA_COLOURS = {0x00: BLACK, 0x01: (255, 0, 0, 255), 0x02: (0, 255, 0, 255), 0x03: (255, 255, 0, 255),
                 0x04: (0, 0, 255, 255), 0x05: (255, 0, 255, 255), 0x06: (0, 255, 255, 255), 0x07: WHITE}


def is_character_code(c):
  return 0x20 <= c <= 0x7F or 0xA0 <= c <= 0xFF


def is_control_code(c):
  """everything of the C0/C1 columns that is not newline / unused space: teletext codes 00-1F, open-subtitle codes 80-85
  (86-89, 8B-8E, 90-9F reserved)"""
  return (0x00 <= c <= 0x1F or 0x80 <= c <= 0x9F) and c not in (NEWLINE, FILLER)


def cut_at_filler(tf: bytes) -> bytes:
  i = tf.find(bytes([FILLER]))
  return tf if i < 0 else tf[:i]


def subtitle_text_bytes(tfs, ext_reading) -> bytes:
  """the bytes that make up the text of one subtitle from the TFs of its blocks (extension chain order)"""
  if ext_reading == "per-block":
    return b"".join(cut_at_filler(t) for t in tfs)
  return cut_at_filler(b"".join(tfs))


class Cell:
  """one character of the subtitle: `alts` accepted code points (None: unassigned code, nothing demanded),
  `sep`: separation from the previous cell of the line: 'N' adjacent, 'S' exactly one space code between, 'S+' at least one
  space code among several space / control codes between, '?' only control codes between (a teletext control code occupies a
  blank cell; for open subtitles Tech 3264 does not say)"""
  __slots__ = ("alts", "sep", "fg", "bg", "italic", "underline")

  def __init__(self, alts, sep, fg, bg, italic, underline):
    self.alts, self.sep, self.fg, self.bg, self.italic, self.underline = alts, sep, fg, bg, italic, underline

  def key(self):
    return (self.alts, self.sep, self.fg, self.bg, self.italic, self.underline)

  def __repr__(self):
    return f"Cell{self.key()}"


def decode_text_field(text: bytes, cct: bytes, teletext: bool, reset_on_newline: bool):
  """`text`: the subtitle's text bytes (already cut at the unused-space byte).  -> list of lines, each a list of Cell.
  Empty lines are kept here (the region rule counts rows); comparison drops them."""
  codec = CCT_CODECS[cct]

  def defaults():
    return {"fg": WHITE, "bg": BLACK if teletext else TRANSPARENT, "it": False, "ul": False}

  st = defaults()
  lines = [[]]
  sep = "N"
  i = 0
  n = len(text)
  while i < n:
    c = text[i]
    if c == FILLER:
      break
    if c == NEWLINE:
      lines.append([])
      sep = "N"
      if teletext or reset_on_newline:
        st = defaults()
      i += 1
      continue
    if is_control_code(c):
      if c in ALPHA_COLOURS:
        st["fg"] = ALPHA_COLOURS[c]
      elif c == 0x1C:
        st["bg"] = BLACK
      elif c == 0x1D:
        st["bg"] = st["fg"]
      elif c == 0x80:
        st["it"] = True
      elif c == 0x81:
        st["it"] = False
      elif c == 0x82:
        st["ul"] = True
      elif c == 0x83:
        st["ul"] = False
      elif c in (0x84, 0x85, 0x0A, 0x0B):
        st["bg"] = None       # boxing: the statement says nothing about it -> any background until the next background code
      sep = {"N": "?", "?": "?", "S": "S+", "S+": "S+"}[sep]
      i += 1
      continue
    if c == 0x20:
      sep = {"N": "S", "?": "S+", "S": "S+", "S+": "S+"}[sep]
      i += 1
      continue
    # character codes
    if codec is None and 0xC1 <= c <= 0xCF:
      if i + 1 < n:
        alts = iso6937_pair(c, text[i + 1])
        i += 2
      else:
        alts = None
        i += 1
    elif codec is None:
      alts = iso6937_single(c)
      i += 1
    else:
      alts = iso8859_single(codec, c)
      i += 1
    lines[-1].append(Cell(alts, sep, st["fg"], st["bg"], st["it"], st["ul"]))
    sep = "N"
  return lines


def row_count_range(text: bytes):
  """(min, max) number of rows the text occupies, over the readings of empty lines and of double height
  (0x0D: each text line is two rows high and newline codes come in pairs)"""
  text = cut_at_filler(text)
  raw = text.count(bytes([NEWLINE])) + 1
  nonempty = sum(1 for ln in text.split(bytes([NEWLINE])) if any(is_character_code(c) and c != 0x20 for c in ln))
  nonempty = max(1, nonempty)
  if 0x0D in text:
    return nonempty, 2 * raw
  return min(nonempty, raw), raw


# ---------------------------------------------------------------------------------------------------------------------
# times


def label_seconds(label, rate: Fraction):
  h, m, s, f = label
  if not smpte.valid(h, m, s, f, rate):
    return None
  return Fraction(smpte.count(h, m, s, f, rate)) / rate


def parse_start_label(cfg_value, gsi):
  """-> (h, m, s, f) | None (no offset) | 'invalid'"""
  if cfg_value is None:
    return None
  if isinstance(cfg_value, str) and cfg_value.upper() == "TCP":
    tcp = gsi["TCP"]
    if len(tcp) == 8 and all(0x30 <= c <= 0x39 for c in tcp):
      return tuple(int(tcp[i:i + 2]) for i in (0, 2, 4, 6))
    return "invalid"
  parts = [cfg_value[i:i + 2] for i in (0, 3, 6, 9)]
  if len(cfg_value) == 11 and all(p.isdigit() for p in parts) and all(cfg_value[i] in ":;.," for i in (2, 5, 8)):
    return tuple(int(p) for p in parts)
  return "invalid"


def row_counts(cfg_value, gsi):
  """admissible total row counts of the safe area; 'invalid' if MNR is requested and is not a positive number"""
  if is_teletext(gsi["DSC"]) or cfg_value is None:
    return [23]
  if isinstance(cfg_value, str) and cfg_value.upper() == "MNR":
    mnr = gsi["MNR"]
    if len(mnr) == 2 and all(0x30 <= c <= 0x39 for c in mnr) and int(mnr) > 0:
      return [int(mnr)]
    return "invalid"
  return [int(cfg_value)]


ALIGN = {0: ("start", "left", "center", "end", "right"),     # "unchanged presentation": nothing demanded
         1: ("start", "left"), 2: ("center",), 3: ("end", "right")}


# ---------------------------------------------------------------------------------------------------------------------


def spec_stl(data: bytes, config=None, reading=None) -> dict:
  """config: dict with the reader settings (program_start_tc, max_row_count, ...) or None.
  -> {"fps", "start", "rows", "teletext", "paragraphs": [...], "dropped": [SN...], "skipped": [...]}.

  paragraph: {"members": [{"sn","begin","end","lines","rows":(min,max),"vp","jc"}], "align": accepted alignments,
              "first_block": index of the first TTI block}
  """
  reading = reading or READINGS[0]
  config = config or {}
  gsi = parse_gsi(data[:GSI_SIZE])
  body = data[GSI_SIZE:]
  assert len(body) % TTI_SIZE == 0
  blocks = [parse_tti(body[i:i + TTI_SIZE]) for i in range(0, len(body), TTI_SIZE)]
  rates = DFC_RATES[gsi["DFC"]]
  rate_name, rate = rates[min(reading["rate30"], len(rates) - 1)]
  teletext = is_teletext(gsi["DSC"])
  cct = gsi["CCT"]

  start_label = parse_start_label(config.get("program_start_tc"), gsi)
  if start_label is None:
    start = Fraction(0)
  elif start_label == "invalid":
    start = None
  else:
    start = label_seconds(start_label, rate)

  out = {"fps": rate, "rate_name": rate_name, "start": start, "rows": row_counts(config.get("max_row_count"), gsi),
         "teletext": teletext, "paragraphs": [], "dropped": [], "skipped": []}

  # 1. subtitles: blocks sharing a subtitle number; user data / reserved and comment blocks skipped
  subtitles = []
  cur = None
  for idx, b in enumerate(blocks):
    if 0xF0 <= b["EBN"] <= 0xFE:
      out["skipped"].append((idx, "user-data"))
      continue
    if b["CF"] == 1:
      out["skipped"].append((idx, "comment"))
      continue
    if cur is None or cur["sn"] != b["SN"]:
      cur = {"sn": b["SN"], "blocks": [], "first_block": idx}
      subtitles.append(cur)
    cur["blocks"].append(b)
    if b["EBN"] == 0xFF:
      cur = None

  # 2. members and cumulative sets
  para = None
  for sub in subtitles:
    last = sub["blocks"][-1]
    if last["EBN"] != 0xFF:
      continue         # unterminated chain: not a subtitle
    text = subtitle_text_bytes([b["TF"] for b in sub["blocks"]], reading["ext"])
    t_in, t_out = label_seconds(last["TCI"], rate), label_seconds(last["TCO"], rate)
    cs = last["CS"]
    if cs in (0, 1) or para is None:
      para = {"members": [], "align": ALIGN.get(last["JC"], ALIGN[0]), "first_block": sub["first_block"], "cs": cs}
      out["paragraphs"].append(para)
    member = {
      "sn": sub["sn"], "tci": last["TCI"], "tco": last["TCO"], "cs": cs, "vp": last["VP"], "jc": last["JC"],
      "begin": None if start is None or t_in is None else t_in - start,
      "end": None if start is None or t_out is None else t_out - start,
      "lines": decode_text_field(text, cct, teletext, reading["open_reset"]),
      "rows": row_count_range(text), "text_bytes": text,
    }
    if member["begin"] is not None and member["begin"] < 0:
      out["dropped"].append(sub["sn"])
      member["dropped"] = True
    para["members"].append(member)
    if cs in (0, 3):
      para = None
  return out


def region_violations(x, y, w, h, display_align, vp, rows_range, row_counts_, eps=1e-9):
  """The region rule of the statement for one paragraph, evaluated on an observed region (all in % of the root):
  inside the safe area, and anchored so that the text occupies rows VP.. : a top-anchored ('before') region starts at
  the top of row VP, a bottom-anchored ('after') region ends at the bottom of the last text row.
  Preconditions (checked by the caller): 1 <= VP and VP + rows - 1 <= total rows."""
  bad = []
  if not (w > 0 and h > 0):
    bad.append(("empty", f"extent {w} x {h}"))
  if x < SAFE_LEFT - eps or x + w > SAFE_LEFT + SAFE_WIDTH + eps or y < SAFE_TOP - eps or y + h > SAFE_TOP + SAFE_HEIGHT + eps:
    bad.append(("outside-safe-area", f"origin ({x}, {y}) extent ({w}, {h}) not inside the safe area 5..95 x 10..90"))
  lo, hi = rows_range
  if display_align == "before":
    want = [SAFE_TOP + Fraction(vp - 1, r) * SAFE_HEIGHT for r in row_counts_]
    if not any(abs(y - float(v)) <= 1e-6 for v in want):
      bad.append(("top-anchor", f"top-anchored region starts at {y}%, row {vp} starts at {[float(v) for v in want]}%"))
  elif display_align == "after":
    want = [SAFE_TOP + Fraction(vp + k - 1, r) * SAFE_HEIGHT for r in row_counts_ for k in range(lo, hi + 1)]
    if not any(abs(y + h - float(v)) <= 1e-6 for v in want):
      bad.append(("bottom-anchor", f"bottom-anchored region ends at {y + h}%, the last text row (VP {vp}, {lo}..{hi} rows) "
                                   f"ends at {sorted(set(round(float(v), 4) for v in want))}%"))
  else:
    bad.append(("anchor", f"displayAlign {display_align}: neither top- nor bottom-anchored"))
  return bad
