"""TTML2 / IMSC 1.1 style resolution -- the oracle of C03, written from the standard and the property statement,
independently of ttconv/isd.py.

The oracle reads a `ttconv.model.ContentDocument` only through its public accessors (duck typing, no ttconv import in the
logic) and works on *neutral* values (tagged tuples with exact `Fraction` numbers):

  length           ("L", value, unit)              unit in "%", "em", "c", "px", "rh", "rw"
  colour           ("C", (r, g, b, a), "RGBA8")
  enum member      ("E", "<enum class name>", "<member name>")
  extent           ("X", height, width)            origin  ("O", x, y)
  position         ("P", h_offset, v_offset, "left"|"right", "top"|"bottom")
  padding          ("D", before, end, after, start)
  text decoration  ("TD", underline, line_through, overline)        each True / False / None (= not specified)
  text emphasis    ("TE", style name, colour|None, position name)
  text outline     ("TO", thickness, colour|None)
  text shadow      ("TS", (("S", x, y, blur|None, colour|None), ...))
  ruby reserve     ("RR", position name, length|None)
  font family      ("FF", (str | enum, ...))
  numbers          Fraction,  booleans  bool

`normalize(v)` maps a ttconv style value to this form, so that the result of ttconv can be compared with the oracle.

Resolution rules (ORACLES.md section 4), top-down from each region:
  cascade      value of the last (document order) animation step active at t  >  specified value  >  (inheritable property
               and a parent exists) the parent's COMPUTED value  >  document initial value  >  TTML default.
               The parent chain is region -> body -> div -> p -> span ...; text decoration resolves per component;
               ruby text (rtc, and rt not inside an rtc) without a font size of its own gets half of the parent's;
               a region without a direction of its own takes it from its writing mode (lrtb: ltr, rltb: rtl).
  lengths      `c` = 100/rows rh (vertical) or 100/columns rw (horizontal); `px` = 100/height rh or 100/width rw;
               `%` = value * reference / 100 and `em` = value * reference, in the units of the reference; rh / rw unchanged.
               fontSize: % and em of the parent's computed font size (root: 1c); extent / origin: per axis, % of 100 rh / 100 rw;
               padding: % of the region's computed extent along the edge's axis (before/after are vertical in lrtb/rltb,
               horizontal in tbrl/tblr), em of the element's computed font size; lineHeight, linePadding, textOutline thickness,
               textShadow offsets and blur, rubyReserve length: % and em of the element's own computed font size;
               position: CSS background-position against the computed extent, and origin := position.
  defaults     textEmphasis `auto` -> filled circle (horizontal region) / filled sesame (vertical region); colours of
               textEmphasis / textOutline / textShadow default to the element's computed colour.

Rules that ORACLES.md marks [P] (probable) are switchable `readings`; `computed_styles` reports which readings were
consulted, so that a harness can accept every reading (see READINGS).
"""
from fractions import Fraction
from enum import Enum

# ---------------------------------------------------------------------------------------------------------------------
# tables written from TTML2 section 10.2 / IMSC 1.1 section 8 (not read from ttconv)

PROPS = (
  "BackgroundColor", "Color", "Direction", "Disparity", "Display", "DisplayAlign", "Extent", "FillLineGap", "FontFamily",
  "FontSize", "FontStyle", "FontWeight", "LineHeight", "LinePadding", "LuminanceGain", "MultiRowAlign", "Opacity", "Origin",
  "Overflow", "Padding", "Position", "RubyAlign", "RubyPosition", "RubyReserve", "Shear", "ShowBackground", "TextAlign",
  "TextCombine", "TextDecoration", "TextEmphasis", "TextOutline", "TextShadow", "UnicodeBidi", "Visibility", "WrapOption",
  "WritingMode",
)

INHERITED = frozenset((
  "Color", "Direction", "FillLineGap", "FontFamily", "FontSize", "FontStyle", "FontWeight", "LineHeight", "LinePadding",
  "MultiRowAlign", "RubyAlign", "RubyPosition", "RubyReserve", "Shear", "TextAlign", "TextCombine", "TextDecoration",
  "TextEmphasis", "TextOutline", "TextShadow", "Visibility", "WrapOption",
))


def E(cls, name):
  return ("E", cls, name)


def L(value, unit):
  return ("L", Fraction(value), unit)


NONE = E("SpecialValues", "none")
NORMAL = E("SpecialValues", "normal")

# TTML2 initial values (IMSC 1.1: colour white, 1c font size, region covering the root container)
DEFAULTS = {
  "BackgroundColor": ("C", (0, 0, 0, 0), "RGBA8"),
  "Color": ("C", (255, 255, 255, 255), "RGBA8"),
  "Direction": E("DirectionType", "ltr"),
  "Disparity": L(0, "px"),
  "Display": E("DisplayType", "auto"),
  "DisplayAlign": E("DisplayAlignType", "before"),
  "Extent": ("X", L(100, "%"), L(100, "%")),            # auto: the root container
  "FillLineGap": False,
  "FontFamily": ("FF", (E("GenericFontFamilyType", "default"),)),
  "FontSize": L(1, "c"),
  "FontStyle": E("FontStyleType", "normal"),
  "FontWeight": E("FontWeightType", "normal"),
  "LineHeight": NORMAL,
  "LinePadding": L(0, "c"),
  "LuminanceGain": Fraction(1),
  "MultiRowAlign": E("MultiRowAlignType", "auto"),
  "Opacity": Fraction(1),
  "Origin": ("O", L(0, "%"), L(0, "%")),                # auto: top left of the root container
  "Overflow": E("OverflowType", "hidden"),
  "Padding": ("D", L(0, "px"), L(0, "px"), L(0, "px"), L(0, "px")),
  "Position": None,                                     # top left == the origin; see _position
  "RubyAlign": E("RubyAlignType", "center"),
  "RubyPosition": E("AnnotationPositionType", "outside"),
  "RubyReserve": NONE,
  "Shear": Fraction(0),
  "ShowBackground": E("ShowBackgroundType", "always"),
  "TextAlign": E("TextAlignType", "start"),
  "TextCombine": E("TextCombineType", "none"),
  "TextDecoration": ("TD", False, False, False),
  "TextEmphasis": NONE,
  "TextOutline": NONE,
  "TextShadow": NONE,
  "UnicodeBidi": E("UnicodeBidiType", "normal"),
  "Visibility": E("VisibilityType", "visible"),
  "WrapOption": E("WrapOptionType", "wrap"),
  "WritingMode": E("WritingModeType", "lrtb"),
}

_BLOCK = ("BackgroundColor", "Display", "Opacity", "Visibility")
_SPAN = ("BackgroundColor", "Color", "Direction", "Display", "FontFamily", "FontSize", "FontStyle", "FontWeight", "Opacity",
         "TextCombine", "TextDecoration", "TextEmphasis", "TextOutline", "TextShadow", "UnicodeBidi", "Visibility", "WrapOption")
_RUBY_CONTAINER = ("BackgroundColor", "Direction", "Display", "Opacity", "Visibility")

# "applies to" of TTML2 10.2.x restricted by IMSC 1.1 (padding, displayAlign, disparity: region only); ruby kinds per tts:ruby
APPLICABLE = {
  "Region": frozenset(("BackgroundColor", "Disparity", "Display", "DisplayAlign", "Extent", "LuminanceGain", "Opacity", "Origin",
                       "Overflow", "Padding", "Position", "ShowBackground", "Visibility", "WritingMode")),
  "Body": frozenset(_BLOCK),
  "Div": frozenset(_BLOCK),
  "P": frozenset(("BackgroundColor", "Direction", "Display", "FillLineGap", "FontFamily", "FontSize", "FontStyle", "FontWeight",
                  "LineHeight", "LinePadding", "MultiRowAlign", "Opacity", "RubyReserve", "Shear", "TextAlign", "UnicodeBidi",
                  "Visibility")),
  "Span": frozenset(_SPAN),
  "Br": frozenset(),
  "Text": frozenset(),
  "Ruby": frozenset(_RUBY_CONTAINER + ("RubyAlign",)),
  "Rb": frozenset(_SPAN),
  "Rp": frozenset(_SPAN),
  "Rt": frozenset(_SPAN + ("RubyPosition",)),
  "Rbc": frozenset(_RUBY_CONTAINER),
  "Rtc": frozenset(_RUBY_CONTAINER + ("RubyPosition",)),
}

# readings of rules that are only probable: name -> (default, alternatives...)
READINGS = {
  # a single-length fontSize (and the lengths relative to it) in a vertical writing mode: along rh (ttconv) or rw
  "vertical-font-axis": ("rh", "rw"),
  # direction of a region in tbrl / tblr without a direction of its own: the initial value, or ltr
  "tb-direction": ("initial", "ltr"),
  # writing mode that implies the direction: the region's specified one, or its computed one (animation / <initial>)
  "direction-from": ("specified", "computed"),
  # rubyReserve without a length: half the font size, or left without a length
  "ruby-reserve-length": ("half", "none"),
  # <initial tts:position> together with a specified tts:origin: position wins, or origin wins
  "initial-position": ("position", "origin"),
  # tts:disparity is carried as specified, or resolved like a horizontal length
  "disparity": ("resolved",),      # (C13: every length of a snapshot is root-container relative)
  # a text decoration component that nothing specifies at the root: from a (partial) <initial> value, or simply off
  "td-root-fill": ("initial", "off"),
  # `c` of lengths that run along the line (linePadding, textShadow x offset): font axis (ttconv) or the inline axis
  "inline-cell-axis": ("font", "inline"),
}


class Undefined(Exception):
  """the document asks for a length whose reference does not exist (e.g. em in tts:origin)"""


# ---------------------------------------------------------------------------------------------------------------------
# ttconv value -> neutral value


def _num(v):
  return Fraction(v)


def normalize(v):
  """neutral form of a ttconv style value (by duck typing on the class name)"""
  if v is None or isinstance(v, bool) or isinstance(v, str):
    return v
  if isinstance(v, (int, float, Fraction)):
    return Fraction(v)
  if isinstance(v, Enum):
    return ("E", type(v).__name__, v.name)
  n = type(v).__name__
  if n == "LengthType":
    return ("L", _num(v.value), v.units.value)
  if n == "ColorType":
    return ("C", tuple(v.components), v.ident.name)
  if n == "ExtentType":
    return ("X", normalize(v.height), normalize(v.width))
  if n == "CoordinateType":
    return ("O", normalize(v.x), normalize(v.y))
  if n == "PositionType":
    return ("P", normalize(v.h_offset), normalize(v.v_offset), v.h_edge.name, v.v_edge.name)
  if n == "PaddingType":
    return ("D", normalize(v.before), normalize(v.end), normalize(v.after), normalize(v.start))
  if n == "TextDecorationType":
    return ("TD", v.underline, v.line_through, v.overline)
  if n == "TextEmphasisType":
    return ("TE", v.style.name, normalize(v.color), v.position.name)
  if n == "TextOutlineType":
    return ("TO", normalize(v.thickness), normalize(v.color))
  if n == "Shadow":
    return ("S", normalize(v.x_offset), normalize(v.y_offset), normalize(v.blur_radius), normalize(v.color))
  if n == "TextShadowType":
    return ("TS", tuple(normalize(s) for s in v.shadows))
  if n == "RubyReserveType":
    return ("RR", v.position.name, normalize(v.length))
  if isinstance(v, tuple):
    return ("FF", tuple(normalize(i) for i in v))
  raise TypeError(f"no neutral form for {type(v).__name__}")


def same(a, b, tol=Fraction(1, 10 ** 9)):
  """structural equality with a relative numeric tolerance"""
  if isinstance(a, bool) or isinstance(b, bool) or a is None or b is None:
    return a is b
  if isinstance(a, Fraction) and isinstance(b, Fraction):
    return abs(a - b) <= tol * max(1, abs(a), abs(b))
  if isinstance(a, tuple) and isinstance(b, tuple):
    if len(a) == 3 and len(b) == 3 and a[0] == "L" and b[0] == "L" and abs(a[1]) <= tol and abs(b[1]) <= tol:
      return True            # a zero length is the same length in every unit
    return len(a) == len(b) and all(same(x, y, tol) for x, y in zip(a, b))
  if type(a) is not type(b):
    return False
  return a == b


def show(v):
  """compact text of a neutral value"""
  if isinstance(v, Fraction):
    return str(v) if v.denominator == 1 else f"{float(v):.10g}"
  if isinstance(v, tuple) and v:
    if v[0] == "L":
      return f"{show(v[1])}{v[2]}"
    if v[0] == "E":
      return v[2]
    if v[0] == "C":
      return "#" + "".join(f"{c:02x}" for c in v[1])
    return v[0] + "(" + ", ".join(show(x) for x in v[1:]) + ")" if isinstance(v[0], str) else "(" + ", ".join(show(x) for x in v) + ")"
  return repr(v)


# ---------------------------------------------------------------------------------------------------------------------
# the resolver


class _Env:
  def __init__(self, doc, readings):
    cr = doc.get_cell_resolution()
    pr = doc.get_px_resolution()
    self.rows, self.cols = Fraction(cr.rows), Fraction(cr.columns)
    self.pw, self.ph = Fraction(pr.width), Fraction(pr.height)
    self.initials = {p.__name__: normalize(v) for p, v in doc.iter_initial_values()}
    self.readings = dict(readings or {})
    self.touched = set()

  def rd(self, name):
    self.touched.add(name)
    return self.readings.get(name, READINGS[name][0])

  def cell(self, axis):
    return ("L", 100 / self.rows, "rh") if axis == "v" else ("L", 100 / self.cols, "rw")

  def px(self, axis):
    return ("L", 100 / self.ph, "rh") if axis == "v" else ("L", 100 / self.pw, "rw")


def _scale(k, ref):
  return ("L", k * ref[1], ref[2])


def resolve_length(env, length, axis, pct_ref, em_ref):
  """the unit table: root-container-relative length of `length` lying along `axis` ('v' or 'h')"""
  _, v, u = length
  if u in ("rh", "rw"):
    return length
  if u == "%":
    if pct_ref is None:
      raise Undefined("percentage without a reference")
    return _scale(v / 100, pct_ref)
  if u == "em":
    if em_ref is None:
      raise Undefined("em without a reference")
    return _scale(v, em_ref)
  if u == "c":
    return _scale(v, env.cell(axis))
  if u == "px":
    return _scale(v, env.px(axis))
  raise Undefined(f"unit {u}")


def _interval(begin, end, pbegin, pend):
  b = pbegin + (Fraction(begin) if begin is not None else 0)
  e = pbegin + Fraction(end) if end is not None else None
  if e is None:
    e = pend
  elif pend is not None:
    e = min(e, pend)
  return b, e


def _active(b, e, t):
  return b <= t and (e is None or t < e)


def _vertical(wm):
  return wm[2] in ("tbrl", "tblr")


class _Node:
  __slots__ = ("kind", "computed", "source", "wm", "font_axis", "extra", "root")


def _resolve_element(env, elem, kind, parent, begin, end, t, region_wm):
  """-> _Node with the computed value and its source ('anim' | 'spec' | 'wm' | 'inh' | 'init' | 'default') per property"""
  node = _Node()
  node.kind = kind
  spec = {p.__name__: normalize(elem.get_style(p)) for p in elem.iter_styles()}
  anim = {}
  for step in elem.iter_animation_steps():
    sb, se = _interval(step.begin, step.end, begin, end)
    if _active(sb, se, t):
      anim[step.style_property.__name__] = normalize(step.value)     # later steps override earlier ones

  val, src = {}, {}
  for name in PROPS:
    if name in anim:
      val[name], src[name] = anim[name], "anim"
    elif name in spec:
      val[name], src[name] = spec[name], "spec"
    elif name in INHERITED and parent is not None:
      val[name], src[name] = parent.computed[name], "inh"
    elif name in env.initials:
      val[name], src[name] = env.initials[name], "init"
    else:
      val[name], src[name] = DEFAULTS[name], "default"

  # writing mode (not inherited): the region's own; descendants refer to the region's
  wm = val["WritingMode"]
  node.wm = wm if parent is None else region_wm
  vertical = _vertical(node.wm)

  # direction of a region follows its writing mode unless it has one of its own
  if parent is None and src["Direction"] in ("init", "default"):
    which = wm
    if spec.get("WritingMode") != wm:
      # the specified and the computed writing mode differ (animation or <initial>): either may be meant
      if env.rd("direction-from") == "specified":
        which = spec.get("WritingMode")
    if which is not None:
      if which[2] == "lrtb":
        val["Direction"], src["Direction"] = E("DirectionType", "ltr"), "wm"
      elif which[2] == "rltb":
        val["Direction"], src["Direction"] = E("DirectionType", "rtl"), "wm"
      elif env.rd("tb-direction") == "ltr":
        val["Direction"], src["Direction"] = E("DirectionType", "ltr"), "wm"

  # text decoration: every component resolves on its own
  if src["TextDecoration"] in ("anim", "spec", "init"):
    below = parent.computed["TextDecoration"] if parent is not None else None
    comps = []
    for i in (1, 2, 3):
      c = val["TextDecoration"][i]
      if c is None and below is not None:
        c = below[i]
      if c is None and src["TextDecoration"] != "init" and env.initials.get("TextDecoration", (0, None, None, None))[i] is not None:
        if env.rd("td-root-fill") == "initial":
          c = env.initials["TextDecoration"][i]
      if c is None:
        c = DEFAULTS["TextDecoration"][i]
      comps.append(c)
    val["TextDecoration"] = ("TD",) + tuple(comps)

  # font size
  axis = "v"
  if vertical and env.rd("vertical-font-axis") == "rw":
    axis = "h"
  node.font_axis = axis
  if src["FontSize"] == "inh":
    if kind == "Rtc" or (kind == "Rt" and parent.kind != "Rtc"):
      val["FontSize"] = _scale(Fraction(1, 2), parent.computed["FontSize"])
  else:
    ref = parent.computed["FontSize"] if parent is not None else env.cell(axis)
    val["FontSize"] = resolve_length(env, val["FontSize"], axis, ref, ref)
  fs = val["FontSize"]
  color = val["Color"]

  def own(length, ax=None):
    return resolve_length(env, length, ax or axis, fs, fs)

  def inline_axis():
    if env.rd("inline-cell-axis") == "inline":
      return "v" if vertical else "h"
    return axis

  # extent, origin, position
  if src["Extent"] != "inh":
    _, h, w = val["Extent"]
    val["Extent"] = ("X", resolve_length(env, h, "v", L(100, "rh"), fs), resolve_length(env, w, "h", L(100, "rw"), fs))
  if src["Origin"] != "inh":
    _, x, y = val["Origin"]
    val["Origin"] = ("O", resolve_length(env, x, "h", L(100, "rw"), None), resolve_length(env, y, "v", L(100, "rh"), None))
  pos = val["Position"]
  node.extra = {}
  if pos is not None and src["Position"] == "init" and src["Origin"] in ("anim", "spec"):
    if env.rd("initial-position") == "origin":
      pos = None
  if pos is not None:
    _, ho, vo, hedge, vedge = pos
    _, eh, ew = val["Extent"]
    if ew[2] != "rw" or eh[2] != "rh":
      raise Undefined("position against an extent that is not in rw x rh")
    x = resolve_length(env, ho, "h", L(100 - ew[1], "rw"), None)
    y = resolve_length(env, vo, "v", L(100 - eh[1], "rh"), None)
    if hedge == "right":
      x = ("L", 100 - ew[1] - x[1], x[2])
    if vedge == "bottom":
      y = ("L", 100 - eh[1] - y[1], y[2])
    val["Origin"] = ("O", x, y)
    node.extra = {"position": pos, "extent": val["Extent"]}      # for diagnostics: the origin was derived from this position
  val["Position"] = ("P", val["Origin"][1], val["Origin"][2], "left", "top")

  # lengths relative to the element's own font size
  if src["LineHeight"] != "inh" and val["LineHeight"] != NORMAL:
    val["LineHeight"] = own(val["LineHeight"])
  if src["LinePadding"] != "inh":
    lp = val["LinePadding"]
    val["LinePadding"] = own(lp, inline_axis() if lp[2] in ("c", "px") else None)
  if src["RubyReserve"] != "inh" and val["RubyReserve"] != NONE:
    _, rpos, rlen = val["RubyReserve"]
    if rlen is not None:
      rlen = own(rlen)
    elif env.rd("ruby-reserve-length") == "half":
      rlen = _scale(Fraction(1, 2), fs)
    val["RubyReserve"] = ("RR", rpos, rlen)
  if src["TextOutline"] != "inh" and val["TextOutline"] != NONE:
    _, th, col = val["TextOutline"]
    val["TextOutline"] = ("TO", own(th), col if col is not None else color)
  if src["TextShadow"] != "inh" and val["TextShadow"] != NONE:
    shadows = []
    for _, sx, sy, blur, col in val["TextShadow"][1]:
      shadows.append(("S", own(sx, inline_axis() if sx[2] in ("c", "px") else None), own(sy), None if blur is None else own(blur),
                      col if col is not None else color))
    val["TextShadow"] = ("TS", tuple(shadows))
  if src["TextEmphasis"] != "inh" and val["TextEmphasis"] != NONE:
    _, style, col, epos = val["TextEmphasis"]
    if style == "auto":
      style = "filled_sesame" if vertical else "filled_circle"
    val["TextEmphasis"] = ("TE", style, col if col is not None else color, epos)

  # padding: before/after along the block progression direction, start/end along the inline progression direction
  if src["Padding"] != "inh":
    own_vertical = _vertical(wm)
    _, eh, ew = val["Extent"]
    _, before, pend, after, start = val["Padding"]
    bax, bref = ("h", ew) if own_vertical else ("v", eh)
    iax, iref = ("v", eh) if own_vertical else ("h", ew)
    val["Padding"] = ("D", resolve_length(env, before, bax, bref, fs), resolve_length(env, pend, iax, iref, fs),
                      resolve_length(env, after, bax, bref, fs), resolve_length(env, start, iax, iref, fs))

  if env.rd("disparity") == "resolved":
    val["Disparity"] = resolve_length(env, val["Disparity"], "h", L(100, "rw"), fs)

  node.computed, node.source = val, src
  # where an inherited value was set: (element id, source there)
  eid = elem.get_id()
  node.root = {n: (parent.root[n] if src[n] == "inh" else (eid, src[n])) for n in PROPS}
  return node


def _kind(elem):
  n = type(elem).__name__
  return n if n in APPLICABLE else next((c.__name__ for c in type(elem).__mro__ if c.__name__ in APPLICABLE), n)


def _walk(env, elem, parent, pbegin, pend, t, out, sources, region_wm):
  kind = _kind(elem)
  if kind == "Text":
    return
  begin, end = _interval(elem.get_begin(), elem.get_end(), pbegin, pend)
  if not _active(begin, end, t):
    return
  if kind == "Br":
    # a line break carries no style; whatever is written on it is ignored
    if elem.get_id() is not None:
      out[elem.get_id()] = {}
      sources[elem.get_id()] = {}
    return
  node = _resolve_element(env, elem, kind, parent, begin, end, t, region_wm)
  if elem.get_id() is not None:
    out[elem.get_id()] = {n: node.computed[n] for n in APPLICABLE[kind]}
    sources[elem.get_id()] = dict(node.source)
    sources[elem.get_id()]["_root"] = node.root
  for child in elem:
    _walk(env, child, node, begin, end, t, out, sources, node.wm)


class _DefaultRegion:
  """the region of a document that declares none: the whole root container, no style of its own"""

  def get_id(self): return "default_region"
  def get_begin(self): return None
  def get_end(self): return None
  def iter_styles(self): return iter(())
  def get_style(self, p): return None
  def iter_animation_steps(self): return iter(())


def resolve(doc, t, readings=None):
  """-> (values, sources, touched): values[region id][element id][property NAME] = neutral computed value, for the region
  itself (under its own id) and every element of the body that is temporally active at t, resolved in that region;
  sources[region id][element id][property NAME] = 'anim' | 'spec' | 'wm' | 'inh' | 'init' | 'default' for all 36 properties,
  plus "_root" (where an inherited value was set: (element id, source)) and, for regions, "_extra" (the position the
  origin was derived from); touched = names of the probable rules that were consulted."""
  t = Fraction(t)
  env = _Env(doc, readings)
  values, sources = {}, {}
  regions = list(doc.iter_regions()) or [_DefaultRegion()]
  for region in regions:
    begin, end = _interval(region.get_begin(), region.get_end(), Fraction(0), None)
    if not _active(begin, end, t):
      continue
    out, srcs = {}, {}
    node = _resolve_element(env, region, "Region", None, begin, end, t, None)
    out[region.get_id()] = {n: node.computed[n] for n in APPLICABLE["Region"]}
    srcs[region.get_id()] = dict(node.source)
    srcs[region.get_id()]["_root"] = node.root
    srcs[region.get_id()]["_extra"] = node.extra
    body = doc.get_body()
    if body is not None:
      _walk(env, body, node, Fraction(0), None, t, out, srcs, node.wm)
    values[region.get_id()] = out
    sources[region.get_id()] = srcs
  return values, sources, env.touched


def computed_styles(doc, t, readings=None):
  """{region id: {element id: {style property class: expected computed value (neutral form)}}} at time t.

  The outer level is needed because containers (body, div) occur in the snapshot of every region they have content for,
  with different inherited values.  The region's own entry is found under its own id."""
  from ttconv.style_properties import StyleProperties      # only to key the result by the property classes
  values, _, _ = resolve(doc, t, readings)
  return {rid: {eid: {getattr(StyleProperties, n): v for n, v in st.items()} for eid, st in elems.items()}
          for rid, elems in values.items()}
