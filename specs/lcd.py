"""Independent oracle for C16 (the LCD document filter), written from the property statement, README.md ("LCD filter
configuration") and TTML2 (lengths relative to the root container, tts:position, style inheritance) -- not from
ttconv/filters/doc/lcd.py.  Plain values only (numbers, strings, tuples); the harness reads the model and passes them in.

What the statement fixes and this module encodes:
  * the only style properties a filtered document may carry (ALLOWED);
  * the box every region must occupy for a safe area `sa` (safe_area_box);
  * when two regions have "equal timing" (norm_timing: an absent begin is 0, an absent end is indefinite; an end of 0 is NOT
    indefinite -- such a region is never active);
  * the flattened visible text of a snapshot (visible_text);
  * TTML <color> strings used as configuration values (color);
  * the computed value of an inherited property that is not animated (inherited).

What the statement leaves open and this module reads permissively (assumption A-LCD-ALIGN, listed by contracts/c16.py): the rule
that produces the "resulting" display alignment.  The reading, supported by src/test/python/test_lcd_filter.py and the purpose
of the filter (text anchored in the upper half of the frame stays at the top, everything else goes to the bottom):
horizontal writing modes only, the anchor of a `before` region is its top edge, of an `after` region its bottom edge, of a
`center` region its middle or its bottom edge (either accepted); anchor < 50 % of the root height -> before, > 50 % -> after,
(almost) exactly 50 % -> either, except that a `before` region whose top edge is exactly the middle of the frame lies wholly in
the lower half and must end `after`.  Vertical writing modes, regions positioned from the bottom/right edge and lengths that cannot
be resolved are undecided: both values are accepted.
"""
from fractions import Fraction

ALLOWED = ("DisplayAlign", "Extent", "Origin", "Color", "BackgroundColor", "TextAlign")
HIDING = ("Display", "Visibility", "Opacity")


def safe_area_box(sa):
  """(x, y, width, height) in percent of the root container"""
  return (sa, sa, 100 - 2 * sa, 100 - 2 * sa)


def norm_timing(begin, end):
  return (begin if begin is not None else 0, end)


# ----------------------------------------------------------------------------------------------------------------------
# lengths


def to_pct(value, unit, axis, rows, cols, px_w, px_h):
  """a length along `axis` ('x' or 'y') as a percentage of the root container; None when the unit has no such reading here"""
  if unit in ("%", "rw", "rh"):
    if (unit == "rw" and axis == "y") or (unit == "rh" and axis == "x"):
      return None
    return value
  if unit == "c":
    return value * 100 / (cols if axis == "x" else rows)
  if unit == "px":
    return value * 100 / (px_w if axis == "x" else px_h)
  return None


def vertical_span(origin_y, extent_h, position_v, res):
  """-> (top, height) in percent of the root height, or None when undecided.
  origin_y / extent_h: (value, unit) or None (absent: TTML initial values 0 % / 100 % unless the document gives others, which the
  caller has substituted already).  position_v: None or (value, unit, edge); tts:position overrides tts:origin: a percentage
  offset is relative to (root height - region height), a length is an absolute offset of the top edge (edge 'top' only)."""
  rows, cols, px_w, px_h = res
  h = to_pct(extent_h[0], extent_h[1], "y", rows, cols, px_w, px_h)
  if h is None:
    return None
  if position_v is not None:
    v, unit, edge = position_v
    if edge != "top":
      return None
    if unit == "%":
      return (v * (100 - h) / 100, h)
    top = to_pct(v, unit, "y", rows, cols, px_w, px_h)
    return None if top is None else (top, h)
  top = to_pct(origin_y[0], origin_y[1], "y", rows, cols, px_w, px_h)
  return None if top is None else (top, h)


EPS = 1e-6


def align_options(writing_mode, display_align, span):
  """the display alignments ('before' / 'after') acceptable as the resulting alignment of a region"""
  both = {"before", "after"}
  if writing_mode not in ("lrtb", "rltb") or span is None:
    return both
  top, h = span
  if display_align == "before":
    anchors = [top]
  elif display_align == "after":
    anchors = [top + h]
  else:
    anchors = [top + h / 2, top + h]
  out = set()
  for a in anchors:
    if a == 50 and display_align == "before":
      out.add("after")        # the top edge is the middle of the frame: the region lies wholly in the lower half
    elif abs(a - 50) <= EPS:
      return both
    else:
      out.add("before" if a < 50 else "after")
  return out


# ----------------------------------------------------------------------------------------------------------------------
# colours (TTML2 10.3.5 <color>: #rrggbb, #rrggbbaa, named colours)

NAMED = {
  "transparent": (0, 0, 0, 0), "black": (0, 0, 0, 255), "silver": (192, 192, 192, 255), "gray": (128, 128, 128, 255),
  "white": (255, 255, 255, 255), "maroon": (128, 0, 0, 255), "red": (255, 0, 0, 255), "purple": (128, 0, 128, 255),
  "fuchsia": (255, 0, 255, 255), "magenta": (255, 0, 255, 255), "green": (0, 128, 0, 255), "lime": (0, 255, 0, 255),
  "olive": (128, 128, 0, 255), "yellow": (255, 255, 0, 255), "navy": (0, 0, 128, 255), "blue": (0, 0, 255, 255),
  "teal": (0, 128, 128, 255), "aqua": (0, 255, 255, 255), "cyan": (0, 255, 255, 255),
}


def color(s):
  """RGBA components of a TTML colour string (the subset used by the harness)"""
  if s in NAMED:
    return NAMED[s]
  if s.startswith("#") and len(s) in (7, 9):
    comps = [int(s[i:i + 2], 16) for i in range(1, len(s), 2)]
    if len(comps) == 3:
      comps.append(255)
    return tuple(comps)
  raise ValueError(s)


# ----------------------------------------------------------------------------------------------------------------------
# snapshots


def visible_text(snapshot, path_of):
  """snapshot: {region id: node} from specs.isd.snapshot; path_of(source Text element) -> hashable position in the body tree.
  -> sorted list of (path, text with white space collapsed) of the non-blank text visible, whatever the region"""
  out = []

  def rec(node):
    if node[0] == "Text":
      s = " ".join(node[1].split())
      if s:
        out.append((path_of(node[2]), s))
      return
    for c in node[2]:
      rec(c)

  for rid in sorted(snapshot):
    rec(snapshot[rid])
  return sorted(out)


def inherited(chain, initial, default):
  """computed value of an inherited, non-animated style property: the nearest specified value on the element, its ancestors
  and the region it is flowed into (`chain`, nearest first, None = not specified), else the document's initial value, else the
  property's default"""
  for v in chain:
    if v is not None:
      return v
  return initial if initial is not None else default


def times(change_times):
  """instants at which the timeline is compared: every boundary, every midpoint, 0 and one second after the last boundary"""
  ts = set(change_times)
  ct = sorted(ts)
  for a, b in zip(ct, ct[1:]):
    ts.add((a + b) / 2)
  ts.add((ct[-1] if ct else Fraction(0)) + 1)
  ts.add(Fraction(0))
  return sorted(ts)
