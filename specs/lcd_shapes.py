"""Concrete document shapes for the proof tier of C16 (contracts/c16.py) and its native replayer: real ttconv.model documents on
which LCDDocFilter.process is executed with a symbolic safe area."""
from fractions import Fraction

import ttconv.model as m
import ttconv.style_properties as sp

SP = sp.StyleProperties
L = sp.LengthType
U = L.Units


def _doc(n_regions):
  doc = m.ContentDocument()
  regs = []
  for i in range(n_regions):
    reg = m.Region(f"r{i + 1}", doc)
    doc.put_region(reg)
    regs.append(reg)
  body, div = m.Body(doc), m.Div(doc)
  body.push_child(div)
  doc.set_body(body)
  for i, reg in enumerate(regs):
    p, s = m.P(doc), m.Span(doc)
    p.set_id(f"p{i + 1}")
    s.push_child(m.Text(doc, f"text {i + 1}"))
    p.push_child(s)
    p.set_region(reg)
    div.push_child(p)
  return doc, regs


def shape_default():
  return _doc(1)[0]


def shape_percent():
  doc, (r1,) = _doc(1)
  r1.set_style(SP.Origin, sp.CoordinateType(x=L(10, U.pct), y=L(70, U.pct)))
  r1.set_style(SP.Extent, sp.ExtentType(height=L(20, U.pct), width=L(80, U.pct)))
  r1.set_style(SP.DisplayAlign, sp.DisplayAlignType.after)
  return doc


def shape_cells_pixels():
  doc, (r1,) = _doc(1)
  r1.set_style(SP.Origin, sp.CoordinateType(x=L(4, U.c), y=L(108, U.px)))
  r1.set_style(SP.Extent, sp.ExtentType(height=L(3, U.c), width=L(960, U.px)))
  return doc


def shape_root_relative():
  doc, (r1,) = _doc(1)
  r1.set_style(SP.Origin, sp.CoordinateType(x=L(10, U.rw), y=L(10, U.rh)))
  r1.set_style(SP.Extent, sp.ExtentType(height=L(30, U.rh), width=L(80, U.rw)))
  r1.set_begin(Fraction(1))
  r1.set_end(Fraction(10))
  return doc


def shape_animated():
  doc, (r1,) = _doc(1)
  r1.add_animation_step(m.DiscreteAnimationStep(SP.Origin, Fraction(1), Fraction(2), sp.CoordinateType(x=L(5, U.pct), y=L(60, U.pct))))
  r1.add_animation_step(m.DiscreteAnimationStep(SP.Extent, Fraction(2), Fraction(3), sp.ExtentType(height=L(10, U.pct), width=L(50, U.pct))))
  r1.add_animation_step(m.DiscreteAnimationStep(SP.DisplayAlign, None, None, sp.DisplayAlignType.after))
  return doc


def shape_position_percent_extent():
  doc, (r1,) = _doc(1)
  r1.set_style(SP.Extent, sp.ExtentType(height=L(20, U.pct), width=L(80, U.pct)))
  r1.set_style(SP.Position, sp.PositionType(h_offset=L(50, U.pct), v_offset=L(25, U.pct)))
  return doc


def shape_position_no_extent():
  doc, (r1,) = _doc(1)
  r1.set_style(SP.Position, sp.PositionType(h_offset=L(10, U.pct), v_offset=L(10, U.pct)))
  return doc


def shape_position_root_relative_extent():
  doc, (r1,) = _doc(1)
  r1.set_style(SP.Extent, sp.ExtentType(height=L(20, U.rh), width=L(80, U.rw)))
  r1.set_style(SP.Position, sp.PositionType(h_offset=L(5, U.rw), v_offset=L(70, U.rh), h_edge=sp.PositionType.HEdge.right,
                                            v_edge=sp.PositionType.VEdge.bottom))
  return doc


def shape_two_regions():
  doc, (r1, r2) = _doc(2)
  r1.set_style(SP.Origin, sp.CoordinateType(x=L(10, U.pct), y=L(10, U.pct)))
  r1.set_style(SP.Extent, sp.ExtentType(height=L(20, U.pct), width=L(80, U.pct)))
  r2.set_style(SP.Origin, sp.CoordinateType(x=L(10, U.pct), y=L(70, U.pct)))
  r2.set_style(SP.Extent, sp.ExtentType(height=L(20, U.pct), width=L(80, U.pct)))
  return doc


def shape_initial_values():
  doc, (r1,) = _doc(1)
  doc.put_initial_value(SP.Extent, sp.ExtentType(height=L(40, U.pct), width=L(80, U.pct)))
  doc.put_initial_value(SP.Origin, sp.CoordinateType(x=L(10, U.pct), y=L(55, U.pct)))
  return doc


def shape_no_body():
  doc, _ = _doc(2)
  doc.set_body(None)
  return doc


SHAPES = {
  "default": shape_default, "percent": shape_percent, "cells-pixels": shape_cells_pixels, "root-relative": shape_root_relative,
  "animation-steps-remain:region-with-3-steps": shape_animated, "two-regions": shape_two_regions, "initial-values": shape_initial_values, "no-body": shape_no_body,
  # named after the bounded-tier key of the same defect so that one known-finding glob covers both tiers
  "filter-raises:region-with-position:percent-extent": shape_position_percent_extent,
  "filter-raises:region-with-position:no-extent": shape_position_no_extent,
  "position:root-relative-extent": shape_position_root_relative_extent,
  "filter-raises:no-body-with-bg_color": shape_no_body,
}
# configuration fields other than safe_area (which is the quantified variable), per shape
CONFIG = {
  "filter-raises:no-body-with-bg_color": dict(bg_color=sp.NamedColors.black.value, color=sp.NamedColors.yellow.value, preserve_text_align=True),
  "two-regions": dict(bg_color=sp.NamedColors.black.value, color=sp.NamedColors.yellow.value),
  "percent": dict(preserve_text_align=True),
}
