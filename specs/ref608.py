"""Reference CEA-608 caption decoder (data channel CC1 of field 1) -- the oracle of C08.

Written from CEA-608 / 47 CFR 15.119 (decoder requirements), independently of ttconv:

  * two caption memories of 15 rows x 32 columns, DISPLAYED and NON-DISPLAYED; a cell is empty (transparent) or holds one
    character with its attributes (colour, italics, underline) or one mid-row code (shown as a space);
  * pop-on: RCL selects the mode, characters and codes are written to the non-displayed memory, EOC swaps the memories;
  * roll-up: RU2/RU3/RU4 select the mode and the depth; coming from pop-on or paint-on both memories are erased and the cursor
    goes to row 15 (the default base row), column 1; characters go to the base row of the displayed memory; CR moves the rows of
    the window up by one, the top row of the window disappears, the base row is erased and the cursor returns to column 1;
    a PAC that names another row moves the whole window so that its base row is that row (a base row too close to the top for
    the depth is pushed down to the depth); reducing the depth erases the rows that fall out of the window;
  * paint-on: RDC selects the mode, characters are written straight into the displayed memory;
  * EDM erases the displayed memory, ENM the non-displayed memory, in every mode;
  * BS moves the cursor one column to the left and erases the cell there (nothing happens in column 1);
  * TO1..TO3 move the cursor 1..3 columns to the right without erasing (not beyond column 32);
  * a PAC sets the row, the column (indent 0,4,..,28, otherwise column 1) and the pen: colour or white italics or white, and
    underline;
  * a mid-row code occupies the cell under the cursor (displayed as a space), advances the cursor, and sets the pen for the
    characters that follow: a colour code sets the colour and switches italics off, the italics code switches italics on and
    leaves the colour alone (decoders that turn the colour to white there exist: both are accepted), bit 0 sets underline;
  * a standard character is written under the cursor with the pen attributes and the cursor advances (it stays in column 32);
  * a special character (11 30-3F) is written like a standard character; "transparent space" (11 39) erases the cell under the
    cursor and advances;
  * an extended character (12/13 20-3F) first backs up one column, i.e. it replaces the preceding character;
  * control pairs (first byte 10-1F) are normally transmitted twice: a pair identical to the immediately preceding pair, when
    that one was a control pair that acted, is ignored (once);
  * pairs addressed to the other data channel (first byte 18-1F) select channel 2: they and the characters that follow are ignored
    until a control pair of channel 1 arrives; field-2 control pairs (15/1D 20-2F) are ignored likewise;
  * null pairs (00 00) are ignored; the parity bit (bit 7) of both bytes is removed first.

`Decoder.feed(b1, b2)` consumes one word (one frame of transmission) and returns a short tag for what the word did.
`Decoder.displayed_rows()` gives the visible screen as {row: [cell, ...]} with cells (chars, colors, italic, underline), where
`chars` is the set of acceptable renderings of the glyph and `colors` the set of acceptable colour names.
"""
from specs import cea608 as S

ROWS = 15
COLS = 32
SPACE = frozenset({" "})

# tags returned by feed()
IGNORED, DUPLICATE, OTHER_CHANNEL, PADDING = "ignored", "duplicate", "other-channel", "padding"


class Cell:
  __slots__ = ("chars", "colors", "italic", "underline", "kind")

  def __init__(self, chars, colors, italic, underline, kind="char"):
    self.chars = chars            # frozenset of acceptable code points
    self.colors = colors          # frozenset of acceptable colour names
    self.italic = italic
    self.underline = underline
    self.kind = kind              # "char" | "midrow"

  def is_space(self):
    return self.kind == "midrow" or self.chars == SPACE

  def key(self):
    return (tuple(sorted(self.chars)), tuple(sorted(self.colors)), self.italic, self.underline, self.kind)

  def __repr__(self):
    return f"<{'/'.join(sorted(self.chars))} {'/'.join(sorted(self.colors))}{' i' if self.italic else ''}{' u' if self.underline else ''}>"


def _blank():
  return [[None] * COLS for _ in range(ROWS + 1)]      # index 1..15


class Decoder:
  def __init__(self, lazy_depth=False):
    # reading of "RUx with a smaller depth": the rows that fall out of the window are erased at once (default), or they are only
    # dropped by the next carriage return (lazy_depth) -- both are accepted by the C08 contracts
    self.lazy_depth = lazy_depth
    self.displayed = _blank()
    self.nondisplayed = _blank()
    self.mode = None              # None | "pop" | "roll" | "paint"
    self.depth = 0
    self.base = ROWS
    self.row = ROWS
    self.col = 0
    self.colors = frozenset({"white"})
    self.italic = False
    self.underline = False
    self.last_control = None      # the control pair that acted in the previous frame (for the redundant copy)
    self.cc1 = True               # is data channel 1 the selected channel?
    self.version = 0              # incremented whenever the displayed memory may have changed

  # ------------------------------------------------------------------------------------------------------------------
  def _memory(self):
    """the memory characters are written to, None when no caption mode is selected"""
    if self.mode == "pop":
      return self.nondisplayed
    if self.mode in ("roll", "paint"):
      return self.displayed
    return None

  def _touch(self, mem):
    if mem is self.displayed:
      self.version += 1

  def _put(self, cell):
    mem = self._memory()
    if mem is None:
      return
    mem[self.row][self.col] = cell
    self._touch(mem)
    if self.col < COLS - 1:
      self.col += 1

  def _write_char(self, chars):
    self._put(Cell(frozenset(chars), self.colors, self.italic, self.underline))

  def _backspace(self):
    mem = self._memory()
    if mem is None or self.col == 0:
      return
    self.col -= 1
    mem[self.row][self.col] = None
    self._touch(mem)

  def _erase(self, mem):
    for r in range(1, ROWS + 1):
      mem[r] = [None] * COLS
    self._touch(mem)

  def _window(self):
    return range(self.base - self.depth + 1, self.base + 1)

  def _set_base(self, row):
    """roll-up: move the window so that its base row is `row`"""
    row = max(row, self.depth)
    if row == self.base:
      return
    old = [self.displayed[r] for r in self._window()]
    for r in self._window():
      self.displayed[r] = [None] * COLS
    self.base = row
    for r, content in zip(self._window(), old):
      self.displayed[r] = content
    # anything outside the window is not part of a roll-up display
    for r in range(1, ROWS + 1):
      if r not in self._window():
        self.displayed[r] = [None] * COLS
    self._touch(self.displayed)

  # ------------------------------------------------------------------------------------------------------------------
  def feed(self, b1, b2):
    b1 &= 0x7F
    b2 &= 0x7F
    cls, ch, field, det = S.classify(b1, b2)
    if cls == S.PADDING:
      self.last_control = None
      return PADDING
    if cls == S.PRINTABLE:
      self.last_control = None
      if not self.cc1:
        return OTHER_CHANNEL
      if self._memory() is None:
        return IGNORED
      for b in (b1, b2):
        if b >= 0x20:
          self._write_char(S.standard_char(b))
      return "text"
    if cls == S.UNKNOWN:
      self.last_control = None
      return IGNORED
    # control pairs
    if ch != 1 or field != 1:
      self.cc1 = False
      self.last_control = None
      return OTHER_CHANNEL
    self.cc1 = True
    if self.last_control == (b1, b2):
      self.last_control = None
      return DUPLICATE
    self.last_control = (b1, b2)
    if cls == S.PAC:
      return self._pac(det)
    if cls == S.MIDROW:
      return self._midrow(det)
    if cls == S.CONTROL:
      return self._control(det["name"])
    if cls == S.SPECIAL:
      if self._memory() is None:
        return IGNORED
      if det["index"] == 9:          # transparent space
        mem = self._memory()
        mem[self.row][self.col] = None
        self._touch(mem)
        if self.col < COLS - 1:
          self.col += 1
      else:
        self._write_char(S.accept(S.SPECIAL_CHARS[det["index"]]))
      return "special"
    if cls == S.EXTENDED:
      if self._memory() is None:
        return IGNORED
      self._backspace()
      self._write_char(S.accept(S.EXTENDED_CHARS[det["index"]]))
      return "extended"
    return IGNORED                   # background / foreground attribute codes: not modelled (never generated)

  def _pac(self, det):
    if self.mode is None:
      return IGNORED
    if self.mode == "roll":
      self._set_base(det["row"])
      self.row = self.base
    else:
      self.row = det["row"]
    self.col = det["indent"] if det["indent"] is not None else 0
    self.colors = frozenset({det["color"]})
    self.italic = det["italic"]
    self.underline = det["underline"]
    return "PAC"

  def _midrow(self, det):
    if self._memory() is None:
      return IGNORED
    if det["italic"]:
      self.colors = self.colors | {"white"}
      self.italic = True
    else:
      self.colors = frozenset({det["color"]})
      self.italic = False
    self.underline = det["underline"]
    self._put(Cell(SPACE, self.colors, self.italic, self.underline, "midrow"))
    return "midrow"

  def _control(self, name):
    if name == "RCL":
      self.mode = "pop"
    elif name == "RDC":
      self.mode = "paint"
    elif name in ("RU2", "RU3", "RU4"):
      depth = int(name[2])
      if self.mode != "roll":
        self._erase(self.displayed)
        self._erase(self.nondisplayed)
        self.mode = "roll"
        self.depth = depth
        self.base = ROWS
        self.row = ROWS
        self.col = 0
      else:
        if depth < self.depth and not self.lazy_depth:
          for r in range(self.base - self.depth + 1, self.base - depth + 1):
            self.displayed[r] = [None] * COLS
          self._touch(self.displayed)
        self.depth = depth
        if self.base < depth:
          self._set_base(depth)
          self.row = self.base
    elif name == "EOC":
      self.displayed, self.nondisplayed = self.nondisplayed, self.displayed
      self.version += 1
      self.mode = "pop"
    elif name == "EDM":
      self._erase(self.displayed)
    elif name == "ENM":
      self._erase(self.nondisplayed)
    elif name == "BS":
      self._backspace()
    elif name in ("TO1", "TO2", "TO3"):
      if self._memory() is not None:
        self.col = min(self.col + int(name[2]), COLS - 1)
    elif name == "CR":
      if self.mode == "roll":
        win = list(self._window())
        for r in win[:-1]:
          self.displayed[r] = self.displayed[r + 1]
        self.displayed[self.base] = [None] * COLS
        for r in range(1, ROWS + 1):
          if r not in win:
            self.displayed[r] = [None] * COLS
        self._touch(self.displayed)
        self.row = self.base
        self.col = 0
    elif name == "DER":
      mem = self._memory()
      if mem is not None:
        for c in range(self.col, COLS):
          mem[self.row][c] = None
        self._touch(mem)
    else:
      return IGNORED                 # AOF AON FON TR RTD: not caption-mode codes
    return name

  # ------------------------------------------------------------------------------------------------------------------
  def displayed_rows(self):
    """{row: [cell or None for the columns from the first to the last occupied cell]} for rows with something visible"""
    out = {}
    for r in range(1, ROWS + 1):
      cells = self.displayed[r]
      idx = [c for c in range(COLS) if cells[c] is not None and not cells[c].is_space()]
      if not idx:
        continue
      out[r] = (idx[0], list(cells[idx[0]:idx[-1] + 1]))
    return out


def parse_scc_words(text):
  """the SCC container, read independently: -> [(label string, [(b1, b2), ...])] (bytes with their parity bits)"""
  out = []
  for line in text.splitlines():
    if "\t" not in line:
      continue
    tc, _, rest = line.partition("\t")
    tc = tc.strip()
    if len(tc) != 11:
      continue
    words = [(int(w[0:2], 16), int(w[2:4], 16)) for w in rest.split() if len(w) == 4]
    out.append((tc, words))
  return out
