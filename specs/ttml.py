"""Independent TTML2 / IMSC 1.1 interpreter working DIRECTLY on the XML (xml.etree) -- the oracle of C04.

Written from the TTML2 / IMSC 1.1 specifications (sections 8 styling, 10 style resolution, 11 layout / [associate region],
12 timing and Appendix I time expression semantics, xml:space / xml:lang of XML 1.0), not from ttconv.  No ttconv import.

  doc = interpret(root_element)            # may raise OutOfScope (a construct whose meaning I am not sure of: see ASSUMPTIONS)
  doc.times()                              # every finite instant at which something begins or ends
  doc.snapshot(t)  -> {region id: [Run]}   # visible text per region in document order; regions without text are omitted

Run = (text, role, lang, props, loose): role in {"", "base", "text", "delimiter", "br"}; props = computed values of color,
backgroundColor, fontWeight, fontStyle, textDecoration, visibility, display (of the span that carries the text) and
textAlign (of the paragraph); a props value of None means `not asserted`.  `loose` marks runs of a paragraph that mixes xml:space="preserve" and "default" text: the
interaction of the two at a boundary is not asserted (compare such paragraphs modulo white space).

Attributes that are unknown or whose value is malformed are ignored (treated as absent), as the property statement says.
Indefinite ends are `None`; an element that can never begin (it follows a sibling of indefinite duration in a `seq`) has
`never = True`.
"""
import re
from fractions import Fraction

NS_TT = "http://www.w3.org/ns/ttml"
NS_TTP = "http://www.w3.org/ns/ttml#parameter"
NS_TTS = "http://www.w3.org/ns/ttml#styling"
NS_XML = "http://www.w3.org/XML/1998/namespace"


def q(ns, name):
  return "{%s}%s" % (ns, name)


class OutOfScope(Exception):
  """the document uses a construct the oracle does not assert (probable-only rule)"""


# ---------------------------------------------------------------------------------------------------------------------
# parameters and time expressions (TTML2 12.3.1, Appendix I.2 media time base)

_POSINT = re.compile(r"[0-9]+\Z")
_MULT = re.compile(r"([0-9]+) ([0-9]+)\Z")
_CLOCK = re.compile(r"([0-9]{2,}):([0-9]{2}):([0-9]{2})(?:(\.[0-9]+)|:([0-9]{2,})(\.[0-9]+)?)?\Z")
_OFFSET = re.compile(r"([0-9]+(?:\.[0-9]+)?)(h|m|s|ms|f|t)\Z")


class Params:
  def __init__(self, frame_rate=30, multiplier=Fraction(1), tick_rate=None):
    self.frame_rate = frame_rate            # nominal, ttp:frameRate
    self.multiplier = multiplier            # ttp:frameRateMultiplier
    self.tick_rate = tick_rate              # ttp:tickRate or None when not specified

  @property
  def effective_frame_rate(self):
    return Fraction(self.frame_rate) * self.multiplier


def read_params(tt):
  p = Params()
  v = tt.get(q(NS_TTP, "frameRate"))
  if v is not None and _POSINT.match(v) and int(v) > 0:
    p.frame_rate = int(v)
  v = tt.get(q(NS_TTP, "frameRateMultiplier"))
  if v is not None:
    m = _MULT.match(v)
    if m and int(m.group(1)) > 0 and int(m.group(2)) > 0:
      p.multiplier = Fraction(int(m.group(1)), int(m.group(2)))
  v = tt.get(q(NS_TTP, "tickRate"))
  if v is not None and _POSINT.match(v) and int(v) > 0:
    p.tick_rate = int(v)
  return p


def parse_time(expr, params):
  """-> Fraction seconds; ValueError when `expr` is not a TTML time expression usable in IMSC"""
  m = _OFFSET.match(expr)
  if m:
    n = Fraction(m.group(1))
    metric = m.group(2)
    if metric == "h":
      return n * 3600
    if metric == "m":
      return n * 60
    if metric == "s":
      return n
    if metric == "ms":
      return n / 1000
    if metric == "f":
      return n / params.effective_frame_rate
    if params.tick_rate is None:
      # default tick rate: frameRate x subFrameRate when ttp:frameRate is specified, else 1 -- probable only
      raise OutOfScope("tick metric without ttp:tickRate")
    return n / params.tick_rate
  m = _CLOCK.match(expr)
  if m:
    hh, mm, ss = int(m.group(1)), int(m.group(2)), int(m.group(3))
    if mm > 59 or ss > 59:
      raise OutOfScope("minutes or seconds above 59")       # an error in my reading of TTML2 (60 = leap second): probable only
    t = Fraction(hh * 3600 + mm * 60 + ss)
    if m.group(4) is not None:
      return t + Fraction("0" + m.group(4))
    if m.group(5) is not None:
      if m.group(6) is not None:
        raise ValueError("sub-frames are not permitted in IMSC")
      frames = int(m.group(5))
      lo, hi = sorted((Fraction(params.frame_rate), params.effective_frame_rate))
      if frames >= hi:
        raise ValueError("frames >= frame rate")
      if frames >= lo:
        # the bound is the nominal ttp:frameRate in my reading, the effective rate in another: not asserted
        raise OutOfScope("frames between the nominal and the effective frame rate")
      return t + Fraction(frames) / params.effective_frame_rate
    return t
  raise ValueError("not a time expression")


# ---------------------------------------------------------------------------------------------------------------------
# style values of the compared properties

NAMED_COLORS = {
  "transparent": (0, 0, 0, 0), "black": (0, 0, 0, 255), "silver": (192, 192, 192, 255), "gray": (128, 128, 128, 255),
  "white": (255, 255, 255, 255), "maroon": (128, 0, 0, 255), "red": (255, 0, 0, 255), "purple": (128, 0, 128, 255),
  "fuchsia": (255, 0, 255, 255), "magenta": (255, 0, 255, 255), "green": (0, 128, 0, 255), "lime": (0, 255, 0, 255),
  "olive": (128, 128, 0, 255), "yellow": (255, 255, 0, 255), "navy": (0, 0, 128, 255), "blue": (0, 0, 255, 255),
  "teal": (0, 128, 128, 255), "aqua": (0, 255, 255, 255), "cyan": (0, 255, 255, 255),
}
_HEX = re.compile(r"#([0-9a-fA-F]{2})([0-9a-fA-F]{2})([0-9a-fA-F]{2})([0-9a-fA-F]{2})?\Z")
_RGB = re.compile(r"rgb\(([0-9]+),([0-9]+),([0-9]+)\)\Z")
_RGBA = re.compile(r"rgba\(([0-9]+),([0-9]+),([0-9]+),([0-9]+)\)\Z")


def parse_color(v):
  if v in NAMED_COLORS:
    return NAMED_COLORS[v]
  m = _HEX.match(v)
  if m:
    return tuple(int(g, 16) if g else 255 for g in m.groups())
  m = _RGB.match(v) or _RGBA.match(v)
  if m:
    c = tuple(int(g) for g in m.groups())
    if any(x > 255 for x in c):
      raise ValueError("colour component > 255")
    return c if len(c) == 4 else c + (255,)
  raise ValueError("not a colour")


def _enum(*tokens, **aliases):
  def parse(v):
    if v in tokens:
      return aliases.get(v, v)
    raise ValueError("unknown token")
  return parse


_ALPHA = re.compile(r"[0-9]+(\.[0-9]+)?|\.[0-9]+")


def parse_alpha(v):
  """tts:opacity: a non-negative decimal number (values above 1 are not generated)"""
  if not _ALPHA.fullmatch(v):
    raise ValueError("bad alpha")
  return float(v)


def parse_text_decoration(v):
  """-> (underline, lineThrough, overline), each True / False / None (= not specified, inherits)"""
  if v == "none":
    return (False, False, False)
  toks = v.split(" ")
  res = [None, None, None]
  pairs = [("underline", "noUnderline"), ("lineThrough", "noLineThrough"), ("overline", "noOverline")]
  if not toks or len(set(toks)) != len(toks):
    raise ValueError("bad textDecoration")
  for tok in toks:
    for i, (on, off) in enumerate(pairs):
      if tok in (on, off):
        if res[i] is not None:
          raise ValueError("contradictory textDecoration")
        res[i] = tok == on
        break
    else:
      raise ValueError("unknown textDecoration token")
  return tuple(res)


# property -> (parser, inherited, initial value); `left`/`right` of tts:textAlign are read as start/end (the canonical
# model has no absolute alignments; IMSC documents are mostly lrtb) -- listed as an assumption
PROPS = {
  "color": (parse_color, True, (255, 255, 255, 255)),
  "backgroundColor": (parse_color, False, (0, 0, 0, 0)),
  "fontWeight": (_enum("normal", "bold"), True, "normal"),
  "fontStyle": (_enum("normal", "italic", "oblique"), True, "normal"),
  "textDecoration": (parse_text_decoration, True, (False, False, False)),
  "textAlign": (_enum("left", "center", "right", "start", "end", left="start", right="end"), True, "start"),
  "display": (_enum("auto", "none"), False, "auto"),
  "visibility": (_enum("visible", "hidden"), True, "visible"),
  # a number whose interesting value is 0 (falsy in most languages: `if value:` is not `if value is not None:`)
  "opacity": (parse_alpha, False, 1.0),
}
SPAN_PROPS = ("color", "backgroundColor", "fontWeight", "fontStyle", "textDecoration", "visibility", "display", "opacity")
P_PROPS = ("textAlign",)


def style_attrs(elem):
  """well-formed values of the compared tts: attributes of an element"""
  out = {}
  for name, (parser, _inh, _init) in PROPS.items():
    v = elem.get(q(NS_TTS, name))
    if v is None:
      continue
    try:
      out[name] = parser(v)
    except ValueError:
      pass
  return out


def all_tts_attrs(elem):
  return [k for k in elem.keys() if k.startswith("{" + NS_TTS + "}") and k != q(NS_TTS, "ruby")]


# ---------------------------------------------------------------------------------------------------------------------
# document tree

RUBY_KINDS = {"container": "ruby", "base": "rb", "text": "rt", "delimiter": "rp", "baseContainer": "rbc", "textContainer": "rtc"}
MIXED = {"p", "span", "rb", "rt", "rp"}
ROLE = {"rb": "base", "rt": "text", "rp": "delimiter"}


class Node:
  """an element of the body, a region, a set, or an anonymous span (kind 'text')"""

  def __init__(self, kind, xml=None, parent=None, text=None):
    self.kind = kind
    self.xml = xml
    self.parent = parent
    self.text = text
    self.children = []       # content children and anonymous spans, document order
    self.sets = []           # set children (kind 'set')
    self.order = []          # all timed children in document order (sets and content)
    self.tc = "par"
    self.b = self.d = self.e = None
    self.begin = None        # absolute
    self.end = None          # absolute, None = indefinite
    self.never = False
    self.region = None
    self.lang = None
    self.space = None
    self.spec = {}
    self.anim = None         # for sets: (property, value)
    self.td_unasserted = False
    self.id = xml.get(q(NS_XML, "id")) if xml is not None else None

  def active(self, t):
    if self.never:
      return False
    if not self.begin <= t:
      return False
    return self.end is None or t < self.end


def _kind_of(elem):
  tag = elem.tag
  if tag == q(NS_TT, "span"):
    r = elem.get(q(NS_TTS, "ruby"))
    return RUBY_KINDS.get(r, "span")       # tts:ruby="none" and unknown tokens: an ordinary span
  for k in ("body", "div", "p", "br", "set", "region"):
    if tag == q(NS_TT, k):
      return k
  return None


# Named deviations from the specification.  They are NOT part of the oracle's verdict: when a document fails, the harness
# re-interprets it with a deviation switched on to recognise which already-described defect explains the failure (stable,
# specific failure keys).
DEVIATIONS = (
  "par-implicit-end-ignores-own-begin",   # implicit end of a parallel container = max(own begin, children's ends relative to it)
  "ruby-none-span-dropped",               # <span tts:ruby="none"> and its content are discarded
)


class Doc:
  def __init__(self, root, time_parser=None, deviations=()):
    if root.tag != q(NS_TT, "tt"):
      raise OutOfScope("root is not tt")
    self.deviations = frozenset(deviations)
    self.root = root
    self.params = read_params(root)
    self.time_parser = time_parser or (lambda expr: parse_time(expr, self.params))
    self.lang = root.get(q(NS_XML, "lang")) or ""
    self.space = root.get(q(NS_XML, "space"))
    if self.space not in ("default", "preserve"):
      self.space = "default"
    self.styles = {}
    self.initial = {}
    self.regions = []          # Node kind 'region', document order
    self.body = None
    head = root.find(q(NS_TT, "head"))
    if head is not None:
      self._read_head(head)
    body = root.find(q(NS_TT, "body"))
    if body is not None:
      top = Node("tt")
      top.lang, top.space = self.lang, self.space
      self.body = self._content(body, top)
      self.body.parent = None
      self._resolve(self.body, Fraction(0), False)
    for r in self.regions:
      self._resolve(r, Fraction(0), False)

  # ---- head

  def _read_head(self, head):
    styling = head.find(q(NS_TT, "styling"))
    if styling is not None:
      for s in styling:
        if s.tag == q(NS_TT, "style"):
          sid = s.get(q(NS_XML, "id"))
          if sid is None:
            continue
          if sid in self.styles:
            raise OutOfScope("duplicate style id")
          self.styles[sid] = s
        elif s.tag == q(NS_TT, "initial"):
          for k, v in style_attrs(s).items():
            if k in self.initial and self.initial[k] != v:
              raise OutOfScope("two initial elements for one property")
            if k == "textDecoration" and None in v:
              raise OutOfScope("partial initial textDecoration")
            self.initial[k] = v
    layout = head.find(q(NS_TT, "layout"))
    if layout is not None:
      top = Node("tt")
      top.lang, top.space = self.lang, self.space
      for r in layout:
        if r.tag != q(NS_TT, "region"):
          continue
        if r.get(q(NS_XML, "id")) is None:
          raise OutOfScope("region without id")
        n = self._content(r, top)
        n.parent = None
        if any(x.id == n.id for x in self.regions):
          raise OutOfScope("duplicate region id")
        self.regions.append(n)

  def flatten(self, sid, stack=()):
    """specified style set of a style element: chained references first (in order, later overrides), then its own attributes"""
    s = self.styles.get(sid)
    if s is None:
      return {}
    if sid in stack:
      raise OutOfScope("loop in style references")
    out = {}
    for ref in _idrefs(s.get("style")):
      out.update(self.flatten(ref, stack + (sid,)))
    out.update(style_attrs(s))
    return out

  # ---- content tree

  def _time(self, elem, name):
    v = elem.get(name)
    if v is None:
      return None
    try:
      return self.time_parser(v)
    except ValueError:
      return None

  def _content(self, elem, parent):
    kind = _kind_of(elem)
    n = Node(kind, elem, parent)
    n.lang = elem.get(q(NS_XML, "lang"), parent.lang)
    sp = elem.get(q(NS_XML, "space"))
    n.space = sp if sp in ("default", "preserve") else parent.space
    if kind != "br":
      n.b, n.d, n.e = self._time(elem, "begin"), self._time(elem, "dur"), self._time(elem, "end")
      if elem.get("timeContainer") == "seq":
        n.tc = "seq"
    if kind == "set":
      attrs = all_tts_attrs(elem)
      if len(attrs) > 1:
        raise OutOfScope("set with several style attributes")
      sa = style_attrs(elem)
      n.anim = next(iter(sa.items())) if sa else None
      return n
    if kind not in ("region", "br", "set"):
      n.region = elem.get("region")
    # specified style set: referential (in order) < nested (regions) < inline
    spec = {}
    for ref in _idrefs(elem.get("style")):
      spec.update(self.flatten(ref))
    if kind == "region":
      nested = {}
      for c in elem:
        if c.tag == q(NS_TT, "style"):
          if c.get("style") is not None:
            raise OutOfScope("nested style with references")
          for k, v in style_attrs(c).items():
            if k in nested and nested[k] != v:
              raise OutOfScope("two nested styles for one property")   # first or last wins: not asserted
            nested[k] = v
      spec.update(nested)
    spec.update(style_attrs(elem))
    n.spec = spec
    if kind == "region" and None in spec.get("textDecoration", ()):
      # resolving a partial value at the root of inheritance against the initial value is a matter of the ISD style
      # computation (C03), not of reading the document: textDecoration is not asserted for the text of this region
      n.td_unasserted = True
    # children
    mixed = kind in MIXED
    if mixed and elem.text:
      self._anon(n, elem.text)
    for c in elem:
      ck = _kind_of(c)
      if ck == "set":
        s = self._content(c, n)
        if kind == "region" and s.anim and s.anim[0] == "textDecoration" and None in s.anim[1]:
          n.td_unasserted = True
        n.sets.append(s)
        n.order.append(s)
      elif ck == "span" and c.get(q(NS_TTS, "ruby")) == "none" and "ruby-none-span-dropped" in self.deviations:
        pass
      elif ck is not None and ck != "region" and kind not in ("region", "br"):
        cn = self._content(c, n)
        n.children.append(cn)
        n.order.append(cn)
      if mixed and c.tail:
        self._anon(n, c.tail)
    return n

  def _anon(self, parent, text):
    t = Node("text", None, parent, text)
    t.lang, t.space = parent.lang, parent.space
    parent.children.append(t)
    parent.order.append(t)

  # ---- timing (TTML2 12.2: SMIL par / seq, offsets only)

  def _resolve(self, n, syncbase, in_seq):
    if syncbase is None:
      self._never(n)
      return
    n.begin = syncbase + (n.b if n.b is not None else 0)
    if n.kind in ("br", "set", "text", "region"):
      # implicit duration: indefinite in a parallel parent, zero in a sequential one
      for s in n.order:
        self._resolve(s, n.begin, False)     # set children of a region
      implicit = n.begin if in_seq else None
    elif n.tc == "par":
      implicit = n.begin
      for c in n.order:
        self._resolve(c, n.begin, False)
        if c.never or c.end is None:
          implicit = None
        elif implicit is not None and c.end > implicit:
          implicit = c.end
      if implicit is not None and "par-implicit-end-ignores-own-begin" in self.deviations:
        pb = n.parent.begin if (n.parent is not None and n.parent.begin is not None) else Fraction(0)
        implicit = pb + max(n.begin - pb, implicit - n.begin)
    else:
      cur = n.begin
      for c in n.order:
        self._resolve(c, cur, True)
        cur = None if (c.never or c.end is None) else c.end
      implicit = cur
    cands = []
    if n.d is not None:
      cands.append(n.begin + n.d)
    if n.e is not None:
      cands.append(syncbase + n.e)
    if cands:
      n.end = min(cands)
    else:
      n.end = implicit
    if n.end is not None and n.end < n.begin:
      # no valid interval: how it enters the parent's implicit duration / the next sibling's begin is not asserted
      par = n.parent
      if par is not None and (par.tc == "seq" or (par.d is None and par.e is None)):
        raise OutOfScope("end before begin under an implicit-duration or sequential parent")

  def _never(self, n):
    n.never = True
    for c in n.order:
      self._never(c)

  # ---- queries

  def nodes(self):
    out = []

    def rec(n):
      out.append(n)
      for c in n.order:
        rec(c)
    for r in self.regions:
      rec(r)
    if self.body is not None:
      rec(self.body)
    return out

  def times(self):
    ts = set()
    for n in self.nodes():
      if n.never:
        continue
      ts.add(n.begin)
      if n.end is not None:
        ts.add(n.end)
    return sorted(ts)

  def _specified_at(self, n, t):
    """specified style set with active animation applied (later set wins)"""
    spec = n.spec
    over = None
    for s in n.sets:
      if s.anim is not None and s.active(t):
        if over is None:
          over = dict(spec)
        over[s.anim[0]] = s.anim[1]
    return spec if over is None else over

  def _compute(self, n, parent_comp, t):
    spec = self._specified_at(n, t)
    comp = {}
    for name, (_p, inherited, default) in PROPS.items():
      init = self.initial.get(name, default)
      v = spec.get(name)
      if name == "textDecoration":
        base = parent_comp[name] if parent_comp is not None else init
        if v is None:
          v = base
        else:
          v = tuple(base[i] if v[i] is None else v[i] for i in range(3))
      elif v is None:
        v = parent_comp[name] if (inherited and parent_comp is not None) else init
      comp[name] = v
    return comp

  def snapshot(self, t):
    out = {}
    if self.body is None:
      return out
    if self.regions:
      for r in self.regions:
        if not r.active(t):
          continue
        comp = self._compute(r, None, t)
        if comp["display"] == "none":
          continue
        items = []
        self._walk(self.body, r.id, False, comp, None, t, items, None, "")
        runs = _finish(items)
        if r.td_unasserted:
          for run in runs:
            if run.props is not None:
              run.props["textDecoration"] = None       # not asserted
        if runs:
          out[r.id] = runs
    else:
      comp = {name: self.initial.get(name, d) for name, (_p, _i, d) in PROPS.items()}
      if comp["display"] == "none":
        return out
      items = []
      self._walk(self.body, None, True, comp, None, t, items, None, "")
      runs = _finish(items)
      if runs:
        out["default_region"] = runs
    return out

  def _walk(self, n, rid, assoc, parent_comp, p_comp, t, items, area, role):
    """`assoc`: some ancestor names the selected region (or there is no region at all)"""
    if n.kind == "text":
      # anonymous span: styles are inherited from the parent, non-inherited ones are initial
      if not n.active(t) or not assoc:
        return
      if n.parent.kind in ("p", "rb", "rt", "rp"):
        # anonymous span: inherited values from the parent, initial values for the non-inherited properties.  For text directly
        # in a ruby base / text / delimiter the reader under test wraps the text in a span of its own; whether the
        # non-inherited values of the run are those of the wrapper or of the ruby part is a matter of representation only
        if n.parent.kind != "p" and (any(k in n.parent.spec for k in ("backgroundColor", "display", "opacity")) or
                                     any(s.anim and s.anim[0] in ("backgroundColor", "display", "opacity") for s in n.parent.sets)):
          raise OutOfScope("non-inherited style on a ruby part with direct text")
        comp = self._compute(n, parent_comp, t)
        if comp["display"] == "none":
          return
      else:
        comp = parent_comp                            # text of a span: the values computed for that span
      items.append(_Item(n.text, False, area, n.space == "preserve", role, n.lang, comp, p_comp))
      return
    if n.kind == "br":
      if assoc and n.active(t):
        items.append(_Item("\n", True, area, False, "br", None, None, None))
      return
    if not n.active(t):
      return
    if n.region is not None:
      if rid is None:
        raise OutOfScope("region attribute without layout")
      if not any(r.id == n.region for r in self.regions):
        raise OutOfScope("reference to an unknown region")
      if n.region != rid:
        return               # [associate region]: flowed into another region
      assoc = True
    comp = self._compute(n, parent_comp, t)
    if comp["display"] == "none":
      return
    if n.kind == "p":
      p_comp = comp
      area = n
    elif n.kind == "rt":
      area = n
    elif n.kind == "rp":
      area = False            # delimiters: no white space handling asserted (generated without white space)
    if n.kind in ROLE:
      role = ROLE[n.kind]
    for c in n.children:
      self._walk(c, rid, assoc, comp, p_comp, t, items, area, role)


def _idrefs(v):
  if v is None:
    return []
  return [x for x in v.split(" ") if x]


class _Item:
  def __init__(self, text, br, area, preserve, role, lang, comp, p_comp):
    self.text, self.br, self.area, self.preserve, self.role, self.lang, self.comp, self.p_comp = \
      text, br, area, preserve, role, lang, comp, p_comp
    self.loose = False


_WS = " \t\r\n"
_WS_RUN = re.compile(r"[ \t\r\n]+")


def _lwsp(seq):
  """xml:space handling over the items of one line area (a paragraph or a ruby text), in place.
  default: runs of white space collapse to one space (across adjacent text), white space at the start of a line (area start,
  after br) and at the end of a line (area end, before br) is removed; preserve: untouched."""
  texts = [i for i in seq if not i.br]
  if any(i.preserve for i in texts) and any(not i.preserve for i in texts):
    for i in texts:
      i.loose = True
  for i in texts:
    if not i.preserve:
      i.text = _WS_RUN.sub(" ", i.text)
  prev = "\n"            # the character before the current position; a line start counts as white space
  for i in seq:
    if i.br:
      prev = "\n"
      continue
    if not i.text:
      continue
    if not i.preserve and i.text[0] == " " and prev in _WS:
      i.text = i.text[1:]
    if i.text:
      prev = i.text[-1]
  nxt = "\n"
  for i in reversed(seq):
    if i.br:
      nxt = "\n"
      continue
    if not i.text:
      continue
    if not i.preserve and i.text[-1] == " " and nxt == "\n":
      i.text = i.text[:-1]
    if i.text:
      nxt = i.text[0]
      if nxt == "\r":
        nxt = "\n"


class Run(tuple):
  """(text, role, lang, props, loose)"""
  __slots__ = ()
  text = property(lambda s: s[0])
  role = property(lambda s: s[1])
  lang = property(lambda s: s[2])
  props = property(lambda s: s[3])
  loose = property(lambda s: s[4])


def _finish(items):
  areas = []
  by = {}
  for i in items:
    if i.area is None or i.area is False:
      continue
    k = id(i.area)
    if k not in by:
      by[k] = []
      areas.append(k)
    by[k].append(i)
  for k in areas:
    _lwsp(by[k])
  runs = []
  for i in items:
    if i.br:
      runs.append(Run(("\n", "br", None, None, False)))
      continue
    if not i.text:
      continue
    props = {k: i.comp[k] for k in SPAN_PROPS}
    for k in P_PROPS:
      props[k] = i.p_comp[k] if i.p_comp is not None else None
    runs.append(Run((i.text, i.role, i.lang, props, i.loose)))
  # a paragraph that shows only line breaks shows nothing that can be compared
  if all(r.role == "br" for r in runs):
    return []
  return runs


def interpret(root, time_parser=None, deviations=()):
  return Doc(root, time_parser, deviations)


# ---------------------------------------------------------------------------------------------------------------------
# attribute values whose meaning is written down directly from the TTML2 value syntax (lengths as (number, unit)):
# (namespace, attribute, element the attribute is put on, attribute value, canonical meaning)

_EBUTTS = "urn:ebu:tt:style"
_ITTS = "http://www.w3.org/ns/ttml/profile/imsc1#styling"
_RED = (255, 0, 0, 255)


def _pos(he, ho, ve, vo):
  return ("position", he, ho, ve, vo)


VALUE_CATALOGUE = [
  (NS_TTS, "fontSize", "span", "150%", (150.0, "%")), (NS_TTS, "fontSize", "span", "1.5em", (1.5, "em")),
  (NS_TTS, "fontSize", "span", "2c", (2.0, "c")), (NS_TTS, "fontSize", "span", "20px", (20.0, "px")),
  (NS_TTS, "fontSize", "span", "+10%", (10.0, "%")), (NS_TTS, "fontSize", "span", "5rh", (5.0, "rh")),
  (NS_TTS, "fontSize", "span", "5.25rw", (5.25, "rw")), (NS_TTS, "fontSize", "span", "007.50em", (7.5, "em")),
  (NS_TTS, "lineHeight", "p", "normal", "normal"), (NS_TTS, "lineHeight", "p", "125%", (125.0, "%")),
  (NS_TTS, "lineHeight", "p", "1.2em", (1.2, "em")),
  (NS_TTS, "opacity", "span", "0.5", 0.5), (NS_TTS, "opacity", "span", "1", 1.0), (NS_TTS, "opacity", "span", "0", 0.0),
  (NS_TTS, "origin", "region", "10% 20%", ("xy", (10.0, "%"), (20.0, "%"))),
  (NS_TTS, "origin", "region", "10px 20.5px", ("xy", (10.0, "px"), (20.5, "px"))),
  (NS_TTS, "origin", "region", "1c 2c", ("xy", (1.0, "c"), (2.0, "c"))),
  (NS_TTS, "origin", "region", "-10% 5.5%", ("xy", (-10.0, "%"), (5.5, "%"))),
  (NS_TTS, "extent", "region", "80% 20%", ("extent", (80.0, "%"), (20.0, "%"))),
  (NS_TTS, "extent", "region", "640px 48px", ("extent", (640.0, "px"), (48.0, "px"))),
  (NS_TTS, "padding", "region", "1%", ("padding", (1.0, "%"), (1.0, "%"), (1.0, "%"), (1.0, "%"))),
  (NS_TTS, "padding", "region", "1% 2%", ("padding", (1.0, "%"), (2.0, "%"), (1.0, "%"), (2.0, "%"))),
  (NS_TTS, "padding", "region", "1% 2% 3%", ("padding", (1.0, "%"), (2.0, "%"), (3.0, "%"), (2.0, "%"))),
  (NS_TTS, "padding", "region", "1% 2% 3% 4%", ("padding", (1.0, "%"), (2.0, "%"), (3.0, "%"), (4.0, "%"))),
  (NS_TTS, "padding", "region", "1c 2px 3em 4%", ("padding", (1.0, "c"), (2.0, "px"), (3.0, "em"), (4.0, "%"))),
  (NS_TTS, "position", "region", "center", _pos("left", (50.0, "%"), "top", (50.0, "%"))),
  (NS_TTS, "position", "region", "left", _pos("left", (0.0, "%"), "top", (50.0, "%"))),
  (NS_TTS, "position", "region", "right", _pos("right", (0.0, "%"), "top", (50.0, "%"))),
  (NS_TTS, "position", "region", "top", _pos("left", (50.0, "%"), "top", (0.0, "%"))),
  (NS_TTS, "position", "region", "bottom", _pos("left", (50.0, "%"), "bottom", (0.0, "%"))),
  (NS_TTS, "position", "region", "10%", _pos("left", (10.0, "%"), "top", (50.0, "%"))),
  (NS_TTS, "position", "region", "10% 20%", _pos("left", (10.0, "%"), "top", (20.0, "%"))),
  (NS_TTS, "position", "region", "10px 20px", _pos("left", (10.0, "px"), "top", (20.0, "px"))),
  (NS_TTS, "position", "region", "left top", _pos("left", (0.0, "%"), "top", (0.0, "%"))),
  (NS_TTS, "position", "region", "bottom right", _pos("right", (0.0, "%"), "bottom", (0.0, "%"))),
  (NS_TTS, "position", "region", "center top", _pos("left", (50.0, "%"), "top", (0.0, "%"))),
  (NS_TTS, "position", "region", "right center", _pos("right", (0.0, "%"), "top", (50.0, "%"))),
  (NS_TTS, "position", "region", "center center", _pos("left", (50.0, "%"), "top", (50.0, "%"))),
  (NS_TTS, "position", "region", "left 10% top", _pos("left", (10.0, "%"), "top", (0.0, "%"))),
  (NS_TTS, "position", "region", "left top 10%", _pos("left", (0.0, "%"), "top", (10.0, "%"))),
  (NS_TTS, "position", "region", "center top 10%", _pos("left", (50.0, "%"), "top", (10.0, "%"))),
  (NS_TTS, "position", "region", "right 10% center", _pos("right", (10.0, "%"), "top", (50.0, "%"))),
  (NS_TTS, "position", "region", "right 10% bottom 20%", _pos("right", (10.0, "%"), "bottom", (20.0, "%"))),
  (NS_TTS, "position", "region", "bottom 20% right 10%", _pos("right", (10.0, "%"), "bottom", (20.0, "%"))),
  (NS_TTS, "position", "region", "left 1c top 2c", _pos("left", (1.0, "c"), "top", (2.0, "c"))),
  (NS_TTS, "fontFamily", "span", "monospaceSerif, Arial", ("monospaceSerif", "Arial")),
  (NS_TTS, "fontFamily", "span", "'Times New Roman', serif", ("Times New Roman", "serif")),
  (NS_TTS, "fontFamily", "span", '"Arial"', ("Arial",)),
  (NS_TTS, "fontFamily", "span", "Times New Roman, sansSerif", ("Times New Roman", "sansSerif")),
  (NS_TTS, "fontFamily", "span", "proportionalSansSerif,proportionalSerif", ("proportionalSansSerif", "proportionalSerif")),
  (NS_TTS, "textOutline", "span", "none", "none"), (NS_TTS, "textOutline", "span", "red 5%", ("outline", _RED, (5.0, "%"))),
  (NS_TTS, "textOutline", "span", "10%", ("outline", None, (10.0, "%"))),
  (NS_TTS, "textOutline", "span", "#00ff0080 2px", ("outline", (0, 255, 0, 128), (2.0, "px"))),
  (NS_TTS, "textShadow", "span", "none", "none"),
  (NS_TTS, "textShadow", "span", "1px 2px", ("shadows", ((1.0, "px"), (2.0, "px"), None, None))),
  (NS_TTS, "textShadow", "span", "1px 2px 3px", ("shadows", ((1.0, "px"), (2.0, "px"), (3.0, "px"), None))),
  (NS_TTS, "textShadow", "span", "1px 2px red", ("shadows", ((1.0, "px"), (2.0, "px"), None, _RED))),
  (NS_TTS, "textShadow", "span", "1px 2px 3px red", ("shadows", ((1.0, "px"), (2.0, "px"), (3.0, "px"), _RED))),
  (NS_TTS, "textShadow", "span", "1px 1px,2% 2% blue", ("shadows", ((1.0, "px"), (1.0, "px"), None, None), ((2.0, "%"), (2.0, "%"), None, (0, 0, 255, 255)))),
  (NS_TTS, "textShadow", "span", "1px 1px, 2px 2px", ("shadows", ((1.0, "px"), (1.0, "px"), None, None), ((2.0, "px"), (2.0, "px"), None, None))),
  (NS_TTS, "textEmphasis", "span", "none", "none"), (NS_TTS, "textEmphasis", "span", "auto", ("emphasis", "auto", None, "outside")),
  (NS_TTS, "textEmphasis", "span", "filled circle before", ("emphasis", "filled circle", None, "before")),
  (NS_TTS, "textEmphasis", "span", "open sesame red", ("emphasis", "open sesame", _RED, "outside")),
  (NS_TTS, "textEmphasis", "span", "dot", ("emphasis", "filled dot", None, "outside")),
  (NS_TTS, "textEmphasis", "span", "open", ("emphasis", "open circle", None, "outside")),
  (NS_TTS, "textEmphasis", "span", "after #0000ff sesame", ("emphasis", "filled sesame", (0, 0, 255, 255), "after")),
  (NS_TTS, "textDecoration", "span", "underline noLineThrough", (True, False, None)),
  (NS_TTS, "textDecoration", "span", "noOverline", (None, None, False)),
  (NS_TTS, "shear", "p", "16.67%", 16.67), (NS_TTS, "shear", "p", "0%", 0.0), (NS_TTS, "shear", "p", "-10%", -10.0),
  (NS_TTS, "rubyReserve", "p", "none", "none"), (NS_TTS, "rubyReserve", "p", "both", ("reserve", "both", None)),
  (NS_TTS, "rubyReserve", "p", "before 1em", ("reserve", "before", (1.0, "em"))),
  (NS_TTS, "writingMode", "region", "lr", "lrtb"), (NS_TTS, "writingMode", "region", "rl", "rltb"), (NS_TTS, "writingMode", "region", "tb", "tbrl"),
  (NS_TTS, "writingMode", "region", "tblr", "tblr"), (NS_TTS, "writingMode", "region", "tbrl", "tbrl"), (NS_TTS, "writingMode", "region", "rltb", "rltb"),
  (NS_TTS, "luminanceGain", "region", "2", 2.0), (NS_TTS, "luminanceGain", "region", "0.75", 0.75),
  (NS_TTS, "displayAlign", "region", "after", "after"), (NS_TTS, "overflow", "region", "visible", "visible"),
  (NS_TTS, "showBackground", "region", "whenActive", "whenActive"),
  (NS_TTS, "color", "span", "#0A0b0C", (10, 11, 12, 255)), (NS_TTS, "color", "span", "#0a0b0c0d", (10, 11, 12, 13)),
  (NS_TTS, "color", "span", "rgb(255,0,7)", (255, 0, 7, 255)), (NS_TTS, "color", "span", "rgba(1,2,3,4)", (1, 2, 3, 4)),
  (NS_TTS, "color", "span", "magenta", (255, 0, 255, 255)), (NS_TTS, "color", "span", "olive", (128, 128, 0, 255)),
  (NS_TTS, "backgroundColor", "span", "teal", (0, 128, 128, 255)), (NS_TTS, "backgroundColor", "span", "transparent", (0, 0, 0, 0)),
  (_EBUTTS, "linePadding", "p", "0.5c", (0.5, "c")), (_EBUTTS, "multiRowAlign", "p", "auto", "auto"),
  (_ITTS, "fillLineGap", "p", "true", True), (_ITTS, "fillLineGap", "p", "false", False),
  (NS_TTS, "wrapOption", "span", "noWrap", "noWrap"), (NS_TTS, "unicodeBidi", "span", "bidiOverride", "bidiOverride"),
  (NS_TTS, "direction", "span", "rtl", "rtl"), (NS_TTS, "textCombine", "span", "all", "all"),
  (NS_TTS, "rubyPosition", "span", "outside", "outside"), (NS_TTS, "rubyAlign", "span", "spaceAround", "spaceAround"),
]
