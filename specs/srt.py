"""Independent SubRip (.srt) oracle, written from the de-facto format description (not from ttconv):

  file    := blank* (cue blank+)* cue? blank*
  cue     := counter EOL timing EOL textline (EOL textline)* EOL?
  counter := a line of decimal digits (its value is ignored; surrounding blanks tolerated)
  timing  := HH(H):MM:SS,mmm SP+ "-->" SP+ HH(H):MM:SS,mmm        (hours of two or three digits)
  textline:= a line with at least one non-blank character; a blank line ends the cue
  EOL     := CR LF | LF

Inside the text of one cue (its lines joined by a line break) the formatting tags are
  <b> </b>  <i> </i>  <u> </u>  <font color="X"> </font>     (quotes optional)   and the brace forms {b} {/b} {i} {/i} {u} {/u}.
A tag applies to exactly the characters between its opening and its closing form, across line breaks; there is no escaping.

The time of `HH:MM:SS,mmm` is the rational (3600000 HH + 60000 MM + 1000 SS + mmm) / 1000 seconds.

Stdlib only; no ttconv import."""
from __future__ import annotations

import re
from collections import namedtuple
from fractions import Fraction

Style = namedtuple("Style", "bold italic underline color")      # color: (r, g, b, a) or None (unspecified)
PLAIN = Style(False, False, False, None)


class Cue:
  def __init__(self, counter, begin, end, raw_lines):
    self.counter = counter            # text of the counter line (ignored by every contract)
    self.begin = begin                # Fraction, seconds
    self.end = end                    # Fraction, seconds
    self.raw_lines = raw_lines        # text lines as printed (without line terminators)
    self.lines = None                 # list of lines; a line is a list of (character, Style)
    self.well_formed = True           # False: stray closing tag, unclosed tag, unknown colour
    self.has_brace_tags = False

  def text(self):
    return ["".join(ch for ch, _ in ln) for ln in self.lines]

  def __repr__(self):
    return f"Cue({self.begin}..{self.end} {self.raw_lines!r})"


class SrtSyntaxError(ValueError):
  """the text is outside the grammar above (the oracle says nothing about it)"""


# ---------------------------------------------------------------------------------------------------------------------
# times

_TIMING = re.compile(r"[ \t]*(\d{2,3}):(\d{2}):(\d{2}),(\d{3})[ \t]+-->[ \t]+(\d{2,3}):(\d{2}):(\d{2}),(\d{3})[ \t]*")


def time_value(h: int, m: int, s: int, ms: int) -> Fraction:
  """exact number of seconds of HH:MM:SS,mmm"""
  return Fraction(((h * 60 + m) * 60 + s) * 1000 + ms, 1000)


def time_label(h: int, m: int, s: int, ms: int, hour_digits: int = 2) -> str:
  return f"{h:0{hour_digits}d}:{m:02d}:{s:02d},{ms:03d}"


# ---------------------------------------------------------------------------------------------------------------------
# colours: CSS/HTML colour keywords that TTML also names (same values in both), #RRGGBB and #RRGGBBAA

NAMED = {
  "black": (0, 0, 0), "silver": (192, 192, 192), "gray": (128, 128, 128), "white": (255, 255, 255), "maroon": (128, 0, 0),
  "red": (255, 0, 0), "purple": (128, 0, 128), "fuchsia": (255, 0, 255), "magenta": (255, 0, 255), "green": (0, 128, 0),
  "lime": (0, 255, 0), "olive": (128, 128, 0), "yellow": (255, 255, 0), "navy": (0, 0, 128), "blue": (0, 0, 255),
  "teal": (0, 128, 128), "aqua": (0, 255, 255), "cyan": (0, 255, 255),
}
_HEX = re.compile(r"#([0-9a-fA-F]{6})([0-9a-fA-F]{2})?")


def color(value: str):
  """(r, g, b, a) of a font colour value, None when the oracle does not know the value"""
  v = value.strip()
  if v.lower() in NAMED:
    return NAMED[v.lower()] + (255,)
  m = _HEX.fullmatch(v)
  if m:
    n = int(m.group(1), 16)
    return (n >> 16, (n >> 8) & 255, n & 255, int(m.group(2), 16) if m.group(2) else 255)
  return None


# ---------------------------------------------------------------------------------------------------------------------
# tags

_FONT_ATTR = re.compile(r"([a-z]+)[ \t]*=[ \t]*(\"[^\"<>]*\"|'[^'<>]*'|[^\s<>\"']+)", re.IGNORECASE)
KEEP = object()        # a <font> tag without a color attribute (face, size only): encloses text, changes no colour

_TAG = re.compile(
  r"<(?P<ac>/?)(?P<an>[biu])>"
  r"|\{(?P<bc>/?)(?P<bn>[biu])\}"
  r"|<font(?P<fattrs>(?:[ \t]+[a-z]+[ \t]*=[ \t]*(?:\"[^\"<>]*\"|'[^'<>]*'|[^\s<>\"']+))*)[ \t]*>"
  r"|(?P<fc></font>)",
  re.IGNORECASE)


def styled_lines(raw_lines, brace_syntax=True):
  """-> (lines, well_formed, has_brace_tags); lines: list of list of (character, Style)"""
  payload = "\n".join(raw_lines)
  stack = []                    # open tags, outermost first: ("b"|"i"|"u"|"font", colour)
  lines = [[]]
  ok = True
  brace = False
  pos = 0

  def style():
    col = None
    for name, c in stack:
      if name == "font" and c is not KEEP:
        col = c
    names = [name for name, _ in stack]
    return Style("b" in names, "i" in names, "u" in names, col)

  def emit(s):
    st = style()
    for ch in s:
      if ch == "\n":
        lines.append([])
      else:
        lines[-1].append((ch, st))

  for m in _TAG.finditer(payload):
    is_brace = m.group("bn") is not None
    if is_brace and not brace_syntax:
      continue
    emit(payload[pos:m.start()])
    pos = m.end()
    if is_brace:
      brace = True
    if m.group("fattrs") is not None:
      attrs = {k.lower(): v.strip("\"'") for k, v in _FONT_ATTR.findall(m.group("fattrs"))}
      if "color" in attrs:
        c = color(attrs["color"])
        if c is None:
          ok = False
      else:
        c = KEEP
      stack.append(("font", c))
      continue
    if m.group("fc") is not None:
      name, closing = "font", True
    elif is_brace:
      name, closing = m.group("bn").lower(), m.group("bc") == "/"
    else:
      name, closing = m.group("an").lower(), m.group("ac") == "/"
    if not closing:
      stack.append((name, None))
      continue
    if stack and stack[-1][0] == name:
      stack.pop()
    else:
      ok = False                                  # stray or mis-nested closing tag
      for i in range(len(stack) - 1, -1, -1):
        if stack[i][0] == name:
          del stack[i]
          break
  emit(payload[pos:])
  if stack:
    ok = False                                    # unclosed tag
  return lines, ok, brace


# ---------------------------------------------------------------------------------------------------------------------
# files

_EOL = re.compile(r"\r\n|\n")


def split_lines(text: str):
  parts = _EOL.split(text)
  if parts and parts[-1] == "":
    parts.pop()
  return parts


def _blank(line):
  return line.strip(" \t\r\n\f\v") == ""


def parse(text: str, brace_syntax: bool = True, allow_empty_cues: bool = False):
  """-> list of Cue in file order.  SrtSyntaxError when the text is not in the grammar of the module docstring
  (`allow_empty_cues`: a cue without any text line is returned with `lines == []` instead)."""
  rows = split_lines(text)
  cues = []
  i, n = 0, len(rows)
  while i < n:
    if _blank(rows[i]):
      i += 1
      continue
    counter = rows[i]
    if not re.fullmatch(r"[ \t]*\d+[ \t]*", counter):
      raise SrtSyntaxError(f"line {i + 1}: counter expected, found {counter!r}")
    i += 1
    if i >= n:
      raise SrtSyntaxError("counter at end of file")
    m = _TIMING.fullmatch(rows[i])
    if m is None:
      raise SrtSyntaxError(f"line {i + 1}: timing expected, found {rows[i]!r}")
    g = [int(x) for x in m.groups()]
    if g[1] > 59 or g[2] > 59 or g[5] > 59 or g[6] > 59:
      raise SrtSyntaxError(f"line {i + 1}: minutes/seconds out of range")
    i += 1
    raw = []
    while i < n and not _blank(rows[i]):
      raw.append(rows[i])
      i += 1
    cue = Cue(counter, time_value(*g[0:4]), time_value(*g[4:8]), raw)
    if not raw:
      if not allow_empty_cues:
        raise SrtSyntaxError(f"line {i + 1}: cue without text")
      cue.lines, cue.well_formed = [], False
    else:
      cue.lines, cue.well_formed, cue.has_brace_tags = styled_lines(raw, brace_syntax)
    cues.append(cue)
  return cues
