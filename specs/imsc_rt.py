"""Independent oracle for C05 (IMSC write / read round trip).

Written from TTML2 / IMSC 1.1 (time expressions 12.3, <color> 10.3.5, content model of tt/head/layout/region/body/div/p/span/br/set,
tts:ruby values) and from the property statement -- not from ttconv/imsc.  The functions read model documents through public
getters and duck typing only (class *names*, dataclass fields, Enum members); nothing of ttconv is imported.

  * time expressions: `effective_syntax`, `unit`, `representable`, `parse_written`, `time_problems`
  * colours: `color_text_problem`
  * the written XML: `xml_structure_problems` (every model element present, text where it belongs, one style attribute per set),
    `written_times` (begin / end values by xml:id), `frame_rate_of`
  * comparison of presentations: `view`, `first_difference` (numeric tolerance = written precision), `parameter_problems`,
    `uses_px`
"""
import dataclasses
import enum
import numbers
import re
from fractions import Fraction

NS_TT = "http://www.w3.org/ns/ttml"
NS_TTP = "http://www.w3.org/ns/ttml#parameter"
NS_TTS = "http://www.w3.org/ns/ttml#styling"
NS_XML = "http://www.w3.org/XML/1998/namespace"
XML_ID = f"{{{NS_XML}}}id"
TTS_RUBY = f"{{{NS_TTS}}}ruby"

# ----------------------------------------------------------------------------------------------------------------------
# time expressions

CLOCK, FRAMES, CWF = "clock_time", "frames", "clock_time_with_frames"


def effective_syntax(time_format, fps):
  """README of the writer: time_format is frames | clock_time | clock_time_with_frames; default: frames if fps is given,
  clock_time otherwise; fps has no effect on clock_time."""
  if time_format is None:
    return FRAMES if fps is not None else CLOCK
  return time_format


def unit(syntax, fps):
  return Fraction(1, 1000) if syntax == CLOCK else 1 / Fraction(fps)


def representable(t, syntax, fps):
  return (Fraction(t) / unit(syntax, fps)).denominator == 1


_CLOCK_RE = re.compile(r"^(\d{2,}):(\d\d):(\d\d)(\.\d+)?$")
_FRAMES_RE = re.compile(r"^(\d+)f$")
_CWF_RE = re.compile(r"^(\d{2,}):(\d\d):(\d\d):(\d{2,})$")


def parse_written(text, syntax, fps):
  """the value of a TTML time expression that must be in the configured syntax -> Fraction; ValueError otherwise"""
  if syntax == CLOCK:
    m = _CLOCK_RE.match(text)
    if not m or int(m.group(2)) > 59 or int(m.group(3)) > 59:
      raise ValueError(f"{text!r} is not a clock time HH:MM:SS.mmm")
    return int(m.group(1)) * 3600 + int(m.group(2)) * 60 + Fraction(m.group(3) + (m.group(4) or ""))
  if syntax == FRAMES:
    m = _FRAMES_RE.match(text)
    if not m:
      raise ValueError(f"{text!r} is not an offset time in frames")
    return Fraction(int(m.group(1))) / Fraction(fps)
  m = _CWF_RE.match(text)
  if not m or int(m.group(2)) > 59 or int(m.group(3)) > 59 or int(m.group(4)) >= Fraction(fps):
    raise ValueError(f"{text!r} is not a clock time with frames HH:MM:SS:FF below the frame rate")
  return int(m.group(1)) * 3600 + int(m.group(2)) * 60 + int(m.group(3)) + Fraction(int(m.group(4))) / Fraction(fps)


def time_problems(pairs, syntax, fps):
  """pairs = [(model time, written time)] of one document -> [(class, message)]:
  representable times exact, others moved by less than one unit, order never changed"""
  u = unit(syntax, fps)
  out = []
  for t, w in pairs:
    if representable(t, syntax, fps):
      if w != t:
        out.append(("representable-time-not-exact", f"{t} s is representable in {syntax}@{fps} but was written as {w} s"))
    elif abs(w - t) >= u:
      out.append(("moved-by-a-unit-or-more", f"{t} s was written as {w} s: moved by {float(abs(w - t) / u):.3f} units of {u} s"))
  srt = sorted(set(pairs))
  for (t1, w1), (t2, w2) in zip(srt, srt[1:]):
    if (t1 == t2 and w1 != w2) or (t1 < t2 and w1 > w2):
      out.append(("order-changed", f"{t1} s -> {w1} s but {t2} s -> {w2} s"))
      break
  return out


# ----------------------------------------------------------------------------------------------------------------------
# colours


def color_text_problem(text, rgba):
  """TTML <color>: #rrggbb or #rrggbbaa (hex digits of either case); alpha may be left out only when it is 255"""
  m = re.match(r"^#([0-9a-fA-F]{2})([0-9a-fA-F]{2})([0-9a-fA-F]{2})([0-9a-fA-F]{2})?$", text)
  if not m:
    return f"{text!r} is not #rrggbb[aa]"
  got = tuple(int(g, 16) for g in m.groups()[:3]) + ((int(m.group(4), 16),) if m.group(4) else (255,))
  if got != tuple(rgba):
    return f"{text!r} denotes {got}, not {tuple(rgba)}"
  return None


# ----------------------------------------------------------------------------------------------------------------------
# the model, read by duck typing


def kind(e):
  return type(e).__name__


def is_text(e):
  return hasattr(e, "get_text")


def all_elements(doc):
  out = list(doc.iter_regions())
  if doc.get_body() is not None:
    out += list(doc.get_body().dfs_iterator())
  return out


def _lengths(v, out):
  if dataclasses.is_dataclass(v) and not isinstance(v, type):
    if hasattr(v, "units") and hasattr(v, "value"):
      out.append(v)
      return
    for f in dataclasses.fields(v):
      _lengths(getattr(v, f.name), out)
  elif isinstance(v, (tuple, list)):
    for x in v:
      _lengths(x, out)


def value_uses_px(v):
  ls = []
  _lengths(v, ls)
  return any(getattr(ln.units, "value", None) == "px" for ln in ls)


def uses_px(doc):
  """does any style value of the document (specified, animated or initial) contain a length in pixels?"""
  for e in all_elements(doc):
    for p in e.iter_styles():
      if value_uses_px(e.get_style(p)):
        return True
    for st in e.iter_animation_steps():
      if value_uses_px(st.value):
        return True
  return any(value_uses_px(v) for _p, v in doc.iter_initial_values())


# ----------------------------------------------------------------------------------------------------------------------
# the written XML

# TTML2 8.1 / 10.2.35: the element and the tts:ruby value that stand for each kind of the model
XML_FORM = {
  "Body": ("body", None), "Div": ("div", None), "P": ("p", None), "Span": ("span", None), "Br": ("br", None),
  "Ruby": ("span", "container"), "Rb": ("span", "base"), "Rt": ("span", "text"), "Rp": ("span", "delimiter"),
  "Rbc": ("span", "baseContainer"), "Rtc": ("span", "textContainer"), "Region": ("region", None),
}


def _q(local):
  return f"{{{NS_TT}}}{local}"


def _is_form(x, k):
  tag, ruby = XML_FORM[k]
  return x.tag == _q(tag) and x.get(TTS_RUBY) == ruby


def _expected_items(e):
  """children of a model element as a sequence of ("t", text) / ("e", element), adjacent text merged, empty text dropped"""
  out = []
  for c in e:
    if is_text(c):
      if not c.get_text():
        continue
      if out and out[-1][0] == "t":
        out[-1] = ("t", out[-1][1] + c.get_text())
      else:
        out.append(("t", c.get_text()))
    else:
      out.append(("e", c))
  return out


def _actual_items(x):
  out = []

  def text(s):
    if s:
      if out and out[-1][0] == "t":
        out[-1] = ("t", out[-1][1] + s)
      else:
        out.append(("t", s))

  sets = []
  text(x.text)
  for c in x:
    if c.tag == _q("set"):
      sets.append(c)
    else:
      out.append(("e", c))
    text(c.tail)
  return out, sets


def _style_attrs(x):
  return [a for a in x.attrib if a.startswith("{") and not a.startswith(f"{{{NS_XML}}}") and not a.startswith(f"{{{NS_TTP}}}")]


def xml_structure_problems(doc, root):
  """every region, content element, text node and animation step of the model is in the XML, at its place -> [(class, message)]"""
  probs = []
  if root.tag != _q("tt"):
    return [("root-not-tt", root.tag)]

  def element(e, x, path):
    k = kind(e)
    here = f"{path}/{k}#{e.get_id()}"
    if not _is_form(x, k):
      probs.append((f"wrong-element:{k}", f"{here} written as <{x.tag.split('}')[-1]} tts:ruby={x.get(TTS_RUBY)!r}>"))
      return
    if e.get_id() is not None and x.get(XML_ID) != e.get_id():
      probs.append(("id-not-written", f"{here}: xml:id is {x.get(XML_ID)!r}"))
    want_region = e.get_region().get_id() if (k != "Region" and e.get_region() is not None) else None
    if x.get("region") != want_region:
      probs.append(("region-reference", f"{here}: region attribute {x.get('region')!r}, model {want_region!r}"))
    actual, sets = _actual_items(x)
    steps = list(e.iter_animation_steps())
    if len(sets) != len(steps):
      probs.append(("animation-step-dropped", f"{here}: {len(steps)} animation steps, {len(sets)} <set> elements"))
    for i, s in enumerate(sets):
      n = len(_style_attrs(s))
      if n != 1:
        probs.append(("set-without-single-style-attribute",
                      f"{here}: <set> number {i} carries {n} style attributes (step {steps[i].style_property.__name__ if i < len(steps) else '?'}"
                      f" = {getattr(steps[i].value, 'name', steps[i].value) if i < len(steps) else '?'})"))
    expected = _expected_items(e)
    # first the element children alone (dropped / foreign elements), then the place of the text runs between them
    we = [w[1] for w in expected if w[0] == "e"]
    ge = [g[1] for g in actual if g[0] == "e"]
    names = lambda: ([kind(c) if not is_text(c) else c.get_text() for c in e],      # noqa: E731
                     [a[1] if a[0] == "t" else f"<{a[1].tag.split('}')[-1]} {a[1].get(TTS_RUBY) or ''}>".replace(" >", ">") for a in actual])
    for i in range(max(len(we), len(ge))):
      if i >= len(ge) or (i < len(we) and not _is_form(ge[i], kind(we[i]))):
        if len(ge) < len(we):
          probs.append((f"element-dropped:{kind(we[i])}", f"{here}: child {kind(we[i])}#{we[i].get_id()} of the model is not in the XML; "
                                                           f"model children {names()[0]}, XML {names()[1]}"))
        else:
          probs.append((f"wrong-element:{kind(we[i])}", f"{here}: child {kind(we[i])}#{we[i].get_id()} is written as {names()[1]}"))
        return
      if i >= len(we):
        probs.append(("unexpected-content", f"{here}: the XML has an extra element; model children {names()[0]}, XML {names()[1]}"))
        return
    if [(w[0], w[1] if w[0] == "t" else None) for w in expected] != [(g[0], g[1] if g[0] == "t" else None) for g in actual]:
      probs.append(("text-misplaced", f"{here}: model children {names()[0]}, XML {names()[1]}"))
      return
    for w, g in zip(we, ge):
      element(w, g, here)

  regions = list(doc.iter_regions())
  xregions = root.findall(f"{_q('head')}/{_q('layout')}/{_q('region')}")
  if [r.get_id() for r in regions] != [x.get(XML_ID) for x in xregions]:
    probs.append(("element-dropped:Region", f"regions of the model {[r.get_id() for r in regions]}, of the XML {[x.get(XML_ID) for x in xregions]}"))
  else:
    for r, x in zip(regions, xregions):
      element(r, x, "layout")
  body = doc.get_body()
  xbodies = root.findall(_q("body"))
  if (body is None) != (not xbodies) or len(xbodies) > 1:
    probs.append(("element-dropped:Body", f"model body {body is not None}, XML bodies {len(xbodies)}"))
  elif body is not None:
    element(body, xbodies[0], "tt")
  inits = list(doc.iter_initial_values())
  xinits = root.findall(f"{_q('head')}/{_q('styling')}/{_q('initial')}")
  if len(inits) != len(xinits):
    probs.append(("initial-value-dropped", f"{len(inits)} initial values, {len(xinits)} <initial> elements"))
  return probs


def frame_rate_of(root):
  """ttp:frameRate x ttp:frameRateMultiplier of the written document (None when ttp:frameRate is absent)"""
  fr = root.get(f"{{{NS_TTP}}}frameRate")
  if fr is None:
    return None
  if not re.match(r"^\d+$", fr):
    raise ValueError(f"ttp:frameRate {fr!r}")
  mult = root.get(f"{{{NS_TTP}}}frameRateMultiplier")
  if mult is None:
    return Fraction(int(fr))
  m = re.match(r"^(\d+) (\d+)$", mult)
  if not m:
    raise ValueError(f"ttp:frameRateMultiplier {mult!r}")
  return Fraction(int(fr)) * Fraction(int(m.group(1)), int(m.group(2)))


def written_times(doc, root, syntax, fps):
  """-> (times, pairs, problems): times = {(element id, "begin"|"end") or (element id, "set", i, "begin"|"end"): written value},
  pairs = [(model value, written value)]"""
  by_id = {}
  for x in root.iter():
    if x.get(XML_ID) is not None:
      by_id[x.get(XML_ID)] = x
  times, pairs, probs = {}, [], []

  def one(owner, key, mv, x):
    for which in ("begin", "end"):
      v = mv[0] if which == "begin" else mv[1]
      raw = x.get(which)
      if v is None:
        if raw is not None:
          probs.append(("unexpected-time-attribute", f"{owner}: {which}={raw!r} although the model has none"))
        continue
      if raw is None:
        if which == "begin" and v == 0:
          times[key + (which,)] = Fraction(0)
          continue
        probs.append(("time-attribute-dropped", f"{owner}: {which}={v} of the model is not written"))
        continue
      try:
        w = parse_written(raw, syntax, fps)
      except ValueError as e:
        probs.append(("time-syntax", f"{owner}: {which}: {e} (configured syntax {syntax})"))
        continue
      times[key + (which,)] = w
      pairs.append((Fraction(v), w))

  for e in all_elements(doc):
    if is_text(e) or e.get_id() is None or e.get_id() not in by_id:
      continue
    x = by_id[e.get_id()]
    if kind(e) != "Br":
      one(f"{kind(e)}#{e.get_id()}", (e.get_id(),), (e.get_begin(), e.get_end()), x)
    sets = [c for c in x if c.tag == _q("set")]
    for i, st in enumerate(e.iter_animation_steps()):
      if i < len(sets):
        one(f"{kind(e)}#{e.get_id()}/set[{i}]", (e.get_id(), "set", i), (st.begin, st.end), sets[i])
  return times, pairs, probs


# ----------------------------------------------------------------------------------------------------------------------
# comparison of presentations

LENGTH_ABS, LENGTH_REL = 2e-3, 2e-5      # lengths after style resolution are sums / ratios of values written with %g (6 digits)
NUMBER_REL = 1e-5


def _is_number(x):
  return isinstance(x, numbers.Real) and not isinstance(x, bool)


def same_value(a, b, in_length=False):
  if _is_number(a) and _is_number(b):
    a, b = float(a), float(b)
    if a == b:
      return True
    if in_length:
      return abs(a - b) <= LENGTH_ABS + LENGTH_REL * max(abs(a), abs(b))
    return abs(a - b) <= NUMBER_REL * max(abs(a), abs(b)) + 1e-12
  if isinstance(a, enum.Enum) or isinstance(b, enum.Enum):
    return isinstance(a, enum.Enum) and isinstance(b, enum.Enum) and type(a).__name__ == type(b).__name__ and a.name == b.name
  if dataclasses.is_dataclass(a) and dataclasses.is_dataclass(b) and not isinstance(a, type):
    if type(a).__name__ != type(b).__name__:
      return False
    ln = hasattr(a, "units") and hasattr(a, "value")
    return all(same_value(getattr(a, f.name), getattr(b, f.name), in_length or ln) for f in dataclasses.fields(a))
  if isinstance(a, (tuple, list)) and isinstance(b, (tuple, list)):
    return len(a) == len(b) and all(same_value(x, y, in_length) for x, y in zip(a, b))
  return type(a) is type(b) and a == b


def _font_family(v):
  """IMSC: the generic family `default` is monospaceSerif"""
  if isinstance(v, tuple):
    return tuple(("generic", "monospaceSerif" if x.name == "default" else x.name) if isinstance(x, enum.Enum) else x for x in v)
  return v


def view(e):
  """neutral view of a snapshot element: ("#text", text) | (kind, lang, space, {style name: value}, [children]); ids are not part
  of the presentation; adjacent text nodes are one run of text"""
  if is_text(e):
    return ("#text", e.get_text())
  k = kind(e)
  kids = []
  for c in e:
    v = view(c)
    if v[0] == "#text" and kids and kids[-1][0] == "#text":
      kids[-1] = ("#text", kids[-1][1] + v[1])
    elif v[0] == "#text":
      if v[1]:
        kids.append(v)
    elif v[4] or v[0] == "Br":
      kids.append(v)      # a ruby base left without content may be kept or pruned (as in C01): pruned here, on both sides
  st = {p.__name__: (_font_family(e.get_style(p)) if p.__name__ == "FontFamily" else e.get_style(p)) for p in e.iter_styles()}
  if k == "Br":
    return (k, None, None, st, kids)
  return (k, e.get_lang(), getattr(e.get_space(), "value", e.get_space()), st, kids)


def isd_view(isd):
  return {r.get_id(): view(r) for r in isd.iter_regions()}


def _diff(a, b, path):
  if a[0] != b[0]:
    return ("structure:" + (a[0] if a[0] != "#text" else "text") + "-vs-" + (b[0] if b[0] != "#text" else "text"), path,
            f"{a[0]} in the original, {b[0]} after the round trip")
  if a[0] == "#text":
    if a[1] != b[1]:
      return ("text", path, f"text {a[1]!r} became {b[1]!r}")
    return None
  here = f"{path}/{a[0]}"
  if a[1] != b[1]:
    return ("lang", here, f"xml:lang {a[1]!r} became {b[1]!r}")
  if a[2] != b[2]:
    return ("space", here, f"xml:space {a[2]!r} became {b[2]!r}")
  for name in sorted(set(a[3]) | set(b[3])):
    if name not in a[3] or name not in b[3] or not same_value(a[3][name], b[3][name]):
      return ("style:" + name, here, f"{name} = {a[3].get(name)!r} became {b[3].get(name)!r}")
  for i in range(max(len(a[4]), len(b[4]))):
    if i >= len(a[4]):
      return ("structure:extra-" + ("text" if b[4][i][0] == "#text" else b[4][i][0]), here, f"child {i} ({b[4][i][0]}) appears after the round trip")
    if i >= len(b[4]):
      return ("structure:missing-" + ("text" if a[4][i][0] == "#text" else a[4][i][0]), here, f"child {i} ({a[4][i][0]}) is missing after the round trip")
    d = _diff(a[4][i], b[4][i], f"{here}[{i}]")
    if d is not None:
      return d
  return None


def first_difference(va, vb):
  """first difference between two snapshot views (original, re-read) -> (class, path, message) or None"""
  if sorted(va) != sorted(vb):
    return ("regions", "isd", f"regions {sorted(va)} became {sorted(vb)}")
  for rid in sorted(va):
    d = _diff(va[rid], vb[rid], f"region {rid}")
    if d is not None:
      return d
  return None


def parameter_problems(a, b):
  """document parameters of the original `a` and of the re-read document `b` -> [(class, message)]"""
  out = []
  if a.get_lang() != b.get_lang():
    out.append(("lang", f"language {a.get_lang()!r} became {b.get_lang()!r}"))
  ca, cb = a.get_cell_resolution(), b.get_cell_resolution()
  if (ca.rows, ca.columns) != (cb.rows, cb.columns):
    out.append(("cell-resolution", f"cell resolution {ca} became {cb}"))
  if uses_px(a):
    pa, pb = a.get_px_resolution(), b.get_px_resolution()
    if (pa.width, pa.height) != (pb.width, pb.height):
      out.append(("pixel-extent", f"pixel lengths are used and the extent {pa} became {pb}"))
  aa, ab = a.get_active_area(), b.get_active_area()
  if (aa is None) != (ab is None) or (aa is not None and not all(
      abs(getattr(aa, f) - getattr(ab, f)) <= 1e-5 * max(abs(getattr(aa, f)), 1e-3) for f in ("left_offset", "top_offset", "width", "height"))):
    out.append(("active-area", f"active area {aa} became {ab}"))
  if a.get_display_aspect_ratio() != b.get_display_aspect_ratio():
    out.append(("aspect-ratio", f"display aspect ratio {a.get_display_aspect_ratio()} became {b.get_display_aspect_ratio()}"))
  return out
