"""Reference for the `tt convert` command line (property C19), written from README.md ("Command line" and the configuration
sections) and the property statement -- not from tt.py.

Three parts:

  1. type selection:   resolve_type(explicit, path)          (pure)
  2. configuration:    select_config / classify / plan_modules   (pure; the documented keys, their documented values and the
                       neutral "normalised" form of every documented value)
  3. composition:      compose(...)  -- calls the selected reader, the named document filters in command-line order and the
                       selected writer of the *library* directly (ttconv is imported lazily, only here), with configuration
                       objects built through the dataclass constructors from the normalised values of part 2, i.e. without
                       going through ModuleConfiguration.parse or any decoder of ttconv.

Classification of a JSON value for a documented key:
   ("valid", n)        documented value; n is its normalised form -- parsing must succeed and yield n
   ("invalid",)        clearly outside the documented set -- parsing must end with an error (any exception)
   ("either", [n..])   the documentation does not decide (case variants, numeric strings, null, ...): an error is fine, and if
                       the value is accepted the result must be one of the listed normalised forms
"""
from __future__ import annotations

import io
import json
import re
from fractions import Fraction

INPUT_TYPES = ("ttml", "scc", "stl", "srt", "vtt")      # README "Input Formats"
OUTPUT_TYPES = ("ttml", "srt", "vtt")                   # README "Output Formats"


# ---------------------------------------------------------------------------------------------------------------------
# 1. type selection


def extension_of(path: str) -> str:
  """the file extension without its dot ('' if there is none); a leading dot of the base name does not start an extension"""
  base = path.replace("\\", "/").rsplit("/", 1)[-1]
  k = base.rfind(".")
  if k <= 0:
    return ""
  return base[k + 1:]


def resolve_type(explicit, path, supported):
  """--itype/--otype if given, else the extension of the file name; compared case-insensitively.
  -> lower-case type name, or None when the name is not a supported type (the command must then end with an error)."""
  name = explicit if explicit is not None else extension_of(path)
  name = name.lower()
  return name if name in supported else None


# ---------------------------------------------------------------------------------------------------------------------
# 2. configuration


def select_config(inline_text, file_text):
  """--config_file overrides --config; -> the JSON dictionary or None"""
  if file_text is not None:
    return json.loads(file_text)
  if inline_text is not None:
    return json.loads(inline_text)
  return None


NAMED_COLORS = {
  "transparent": (0, 0, 0, 0), "black": (0, 0, 0, 255), "silver": (192, 192, 192, 255), "gray": (128, 128, 128, 255),
  "white": (255, 255, 255, 255), "maroon": (128, 0, 0, 255), "red": (255, 0, 0, 255), "purple": (128, 0, 128, 255),
  "fuchsia": (255, 0, 255, 255), "magenta": (255, 0, 255, 255), "green": (0, 128, 0, 255), "lime": (0, 255, 0, 255),
  "olive": (128, 128, 0, 255), "yellow": (255, 255, 0, 255), "navy": (0, 0, 128, 255), "blue": (0, 0, 255, 255),
  "teal": (0, 128, 128, 255), "aqua": (0, 255, 255, 255), "cyan": (0, 255, 255, 255),
}   # TTML2 10.3.5 <named-color>

GENERIC_FAMILIES = ("default", "monospace", "sansSerif", "serif", "monospaceSansSerif", "monospaceSerif",
                    "proportionalSansSerif", "proportionalSerif")   # TTML2 <generic-family-name>

_HEX = re.compile(r"#([0-9a-fA-F]{2})([0-9a-fA-F]{2})([0-9a-fA-F]{2})([0-9a-fA-F]{2})?\Z")
_RGB = re.compile(r"rgb\(\s*(\d+)\s*,\s*(\d+)\s*,\s*(\d+)\s*\)\Z")
_RGBA = re.compile(r"rgba\(\s*(\d+)\s*,\s*(\d+)\s*,\s*(\d+)\s*,\s*(\d+)\s*\)\Z")
_TC = re.compile(r"[0-9]{2}:[0-9]{2}:[0-9]{2}:[0-9]{2}\Z")
_TC_LOOSE = re.compile(r"[0-9]{2}[:;.,][0-9]{2}[:;.,][0-9]{2}[:;.,][0-9]{2}")
_FPS = re.compile(r"([0-9]+)/([0-9]+)\Z")
_FAMILY = re.compile(r"[A-Za-z][A-Za-z0-9]*\Z")


def _is_int(v):
  return isinstance(v, int) and not isinstance(v, bool)


def _bool(v):
  if isinstance(v, bool):
    return ("valid", v)
  if v is None:
    return ("either", ["<default>"])                 # null read as "not specified"
  if isinstance(v, str) and v.lower() in ("true", "false"):
    return ("either", [v.lower() == "true"])         # a lenient reading of the JSON string; never the opposite value
  if _is_int(v) and v in (0, 1):
    return ("either", [bool(v)])
  return ("invalid",)


def _as_color(v):
  """the colour denoted by a string in documented syntax, else None"""
  if v in NAMED_COLORS:
    return NAMED_COLORS[v]
  m = _HEX.match(v)
  if m:
    return tuple(int(g, 16) if g else 255 for g in m.groups())
  m = _RGB.match(v) or _RGBA.match(v)
  if m:
    comps = tuple(int(g) for g in m.groups())
    if all(c <= 255 for c in comps):
      return comps + (255,) if len(comps) == 3 else comps
  return None


def _color(v):
  if v is None:
    return ("valid", None)
  if not isinstance(v, str):
    return ("invalid",)
  c = _as_color(v)
  if c is not None:
    return ("valid", c)
  c = _as_color(v.strip()) or _as_color(v.strip().lower())
  if c is not None:
    return ("either", [c])               # surrounding blanks, upper-case colour names
  if re.match(r"#[0-9a-fA-F]{6}", v) or re.match(r"rgba?\([^)]*\)", v):
    return ("either", None)              # a colour followed by something else, components above 255
  return ("invalid",)


def _safe_area(v):
  """README: "<integer between 0 and 30>" """
  if _is_int(v):
    return ("valid", v) if 0 <= v <= 30 else ("invalid",)
  if isinstance(v, bool) or v is None:
    return ("either", None)
  if isinstance(v, float):
    if v != v or v in (float("inf"), float("-inf")) or v <= -1 or v >= 31:
      return ("invalid",)                # out of range however it is rounded
    if v == int(v):
      return ("either", [int(v)])
    return ("either", None)
  if isinstance(v, str):
    s = v.strip()
    if re.match(r"[+-]?[0-9]+\Z", s):
      return ("either", [int(s)]) if 0 <= int(s) <= 30 else ("invalid",)
    return ("invalid",)
  return ("invalid",)


def _time_format(v):
  if v in ("frames", "clock_time", "clock_time_with_frames"):
    return ("valid", v)
  if v is None:
    return ("either", ["<default>"])
  if isinstance(v, str) and v.strip().lower() in ("frames", "clock_time", "clock_time_with_frames"):
    return ("either", [v.strip().lower()])
  return ("invalid",)


def _fps(v):
  if v is None:
    return ("either", ["<default>"])
  if not isinstance(v, str):
    return ("invalid",)
  m = _FPS.match(v)
  if m:
    num, den = int(m.group(1)), int(m.group(2))
    if den == 0:
      return ("invalid",)
    if num == 0:
      return ("either", [Fraction(0)])
    return ("valid", Fraction(num, den))
  if re.match(r"\s*[+-]?[0-9_]+\s*/\s*[+-]?[0-9_]+\s*\Z", v):
    return ("either", None)          # signs, blanks, digit separators: not documented either way
  return ("invalid",)


def _scc_text_align(v):
  if v in ("auto", "left", "center", "right"):
    return ("valid", v)
  if isinstance(v, str) and v.lower() in ("auto", "left", "center", "right"):
    return ("either", [v.lower()])
  return ("invalid",)


def _start_tc(v):
  if v is None:
    return ("either", ["<default>"])
  if not isinstance(v, str):
    return ("invalid",)
  if v == "TCP":
    return ("valid", "TCP")
  if v.upper() == "TCP":
    return ("either", ["TCP"])
  if _TC.match(v):
    return ("valid", v)
  if _TC_LOOSE.match(v):
    return ("either", None)          # drop-frame style separators, trailing characters
  return ("invalid",)


def _max_row_count(v):
  if v == "MNR" and isinstance(v, str):
    return ("valid", "MNR")
  if _is_int(v):
    return ("valid", v) if v >= 1 else ("either", [v])
  if v is None:
    return ("either", ["<default>"])
  if isinstance(v, bool):
    return ("either", None)
  if isinstance(v, str):
    if v.upper() == "MNR":
      return ("either", ["MNR"])
    if re.match(r"\s*[0-9]+\s*\Z", v):
      return ("either", [int(v), v])
    return ("invalid",)
  if isinstance(v, float) and v == v and abs(v) != float("inf") and v == int(v):
    return ("either", [int(v)])
  return ("invalid",)


def _font_stack(v):
  if v is None:
    return ("either", ["<default>"])
  if not isinstance(v, str):
    return ("invalid",)
  parts = [p.strip() for p in v.split(",")]
  if parts and all(_FAMILY.match(p) for p in parts):
    return ("valid", tuple(("generic", p) if p in GENERIC_FAMILIES else ("family", p) for p in parts))
  if v.strip() == "":
    return ("invalid",)
  return ("either", None)            # quoting, escapes, blanks inside names: left to the font-family property


def _log_level(v):
  if v in ("INFO", "WARN", "ERROR"):
    return ("valid", v)
  if v is None:
    return ("either", ["<default>"])
  if isinstance(v, str) and v.upper() in ("DEBUG", "INFO", "WARN", "WARNING", "ERROR", "CRITICAL", "FATAL", "NOTSET"):
    return ("either", None)
  if isinstance(v, int):
    return ("either", None)          # numeric levels of the logging module (bool is an int)
  return ("invalid",)


def _lang(v):
  if v is None:
    return ("valid", None)
  if isinstance(v, str) and re.match(r"[A-Za-z]{2,8}(-[A-Za-z0-9]{1,8})*\Z", v):
    return ("valid", v)
  if isinstance(v, str):
    return ("either", [v])
  return ("invalid",)


# module name -> {key: (classifier, documented default in normalised form or "<none>")}
SCHEMA = {
  "general": {"progress_bar": (_bool, True), "log_level": (_log_level, "INFO"), "document_lang": (_lang, None)},
  "imsc_writer": {"time_format": (_time_format, None), "fps": (_fps, None)},
  "stl_reader": {"disable_fill_line_gap": (_bool, False), "disable_line_padding": (_bool, False),
                 "program_start_tc": (_start_tc, "<none>"), "font_stack": (_font_stack, "<none>"),
                 "max_row_count": (_max_row_count, "<none>")},
  "srt_writer": {"text_formatting": (_bool, True)},
  "vtt_writer": {"line_position": (_bool, False), "text_align": (_bool, False), "cue_id": (_bool, True)},
  "scc_reader": {"text_align": (_scc_text_align, "auto")},
  "lcd": {"safe_area": (_safe_area, 10), "preserve_text_align": (_bool, False), "color": (_color, None), "bg_color": (_color, None)},
}

READER_MODULE = {"scc": "scc_reader", "stl": "stl_reader"}
WRITER_MODULE = {"ttml": "imsc_writer", "srt": "srt_writer", "vtt": "vtt_writer"}


def classify(module, key, value):
  return SCHEMA[module][key][0](value)


def default_of(module, key):
  return SCHEMA[module][key][1]


def normalise_section(module, section):
  """section: the JSON object of one module (or None).  -> (status, {key: normalised}) with status 'valid' when every
  documented key present has a documented value, 'invalid' when some value must be rejected, 'either' otherwise.
  Keys that are absent get their documented default ("<none>" defaults are left out)."""
  out = {}
  status = "valid"
  section = section if isinstance(section, dict) else {}
  for key, (fn, dflt) in SCHEMA[module].items():
    if key in section:
      c = fn(section[key])
      if c[0] == "invalid":
        return "invalid", {}
      if c[0] == "either":
        status = "either"
        continue
      out[key] = c[1]
    elif dflt != "<none>":
      out[key] = dflt
  return status, out


# ---------------------------------------------------------------------------------------------------------------------
# 3. composition over the library


def _lib_color(c):
  from ttconv.style_properties import ColorType
  return None if c is None else ColorType(tuple(c))


def lib_config(module, norm):
  """Build the configuration object of `module` from normalised values through the dataclass constructor."""
  if module == "general":
    from ttconv.config import GeneralConfiguration
    return GeneralConfiguration(**norm)
  if module == "imsc_writer":
    from ttconv.imsc.config import IMSCWriterConfiguration
    from ttconv.imsc.attributes import TimeExpressionSyntaxEnum
    kw = dict(norm)
    if kw.get("time_format") is not None:
      kw["time_format"] = {"frames": TimeExpressionSyntaxEnum.frames, "clock_time": TimeExpressionSyntaxEnum.clock_time,
                           "clock_time_with_frames": TimeExpressionSyntaxEnum.clock_time_with_frames}[kw["time_format"]]
    return IMSCWriterConfiguration(**kw)
  if module == "stl_reader":
    from ttconv.stl.config import STLReaderConfiguration
    from ttconv.style_properties import GenericFontFamilyType
    kw = dict(norm)
    if kw.get("font_stack") is not None:
      kw["font_stack"] = tuple(GenericFontFamilyType(n) if k == "generic" else n for k, n in kw["font_stack"])
    return STLReaderConfiguration(**kw)
  if module == "srt_writer":
    from ttconv.srt.config import SRTWriterConfiguration
    return SRTWriterConfiguration(**norm)
  if module == "vtt_writer":
    from ttconv.vtt.config import VTTWriterConfiguration
    return VTTWriterConfiguration(**norm)
  if module == "scc_reader":
    from ttconv.scc.config import SccReaderConfiguration, TextAlignment
    kw = dict(norm)
    if "text_align" in kw:
      kw["text_align"] = {"auto": TextAlignment.AUTO, "left": TextAlignment.LEFT, "center": TextAlignment.CENTER,
                          "right": TextAlignment.RIGHT}[kw["text_align"]]
    return SccReaderConfiguration(**kw)
  if module == "lcd":
    from ttconv.filters.doc.lcd import LCDDocFilterConfig
    kw = dict(norm)
    for k in ("color", "bg_color"):
      if k in kw:
        kw[k] = _lib_color(kw[k])
    return LCDDocFilterConfig(**kw)
  raise KeyError(module)


class Unspecified(Exception):
  """the documentation does not determine the expected result for this command line (harness must not use it)"""


def read_document(itype, path, json_config):
  if itype == "ttml":
    import xml.etree.ElementTree as et
    import ttconv.imsc.reader as imsc_reader
    return imsc_reader.to_model(et.parse(path))
  if itype == "scc":
    import ttconv.scc.reader as scc_reader
    with open(path, "rb") as f:
      text = f.read().decode("utf-8")
    return scc_reader.to_model(text.replace("\r\n", "\n"), _module_config("scc_reader", json_config))
  if itype == "stl":
    import ttconv.stl.reader as stl_reader
    with open(path, "rb") as f:
      return stl_reader.to_model(io.BytesIO(f.read()), _module_config("stl_reader", json_config))
  if itype == "srt":
    import ttconv.srt.reader as srt_reader
    with open(path, "r", encoding="utf-8") as f:
      return srt_reader.to_model(f)
  if itype == "vtt":
    import ttconv.vtt.reader as vtt_reader
    with open(path, "r", encoding="utf-8") as f:
      return vtt_reader.to_model(f)
  raise KeyError(itype)


def _module_config(module, json_config):
  section = (json_config or {}).get(module)
  status, norm = normalise_section(module, section)
  if status == "invalid":
    raise ValueError(f"configuration of {module} must be rejected")
  if status == "either":
    raise Unspecified(module)
  return lib_config(module, norm)


def write_document(otype, doc, json_config) -> bytes:
  if otype == "ttml":
    import ttconv.imsc.writer as imsc_writer
    tree = imsc_writer.from_model(doc, _module_config("imsc_writer", json_config))
    buf = io.BytesIO()
    tree.write(buf, encoding="utf-8")
    return buf.getvalue()
  if otype == "srt":
    import ttconv.srt.writer as srt_writer
    return srt_writer.from_model(doc, _module_config("srt_writer", json_config)).encode("utf-8")
  if otype == "vtt":
    import ttconv.vtt.writer as vtt_writer
    return vtt_writer.from_model(doc, _module_config("vtt_writer", json_config)).encode("utf-8")
  raise KeyError(otype)


def compose(input_path, output_name, itype=None, otype=None, filters=(), config_inline=None, config_file_text=None,
            extra_filters=None):
  """The library composition for one `tt convert` command line.
  -> ("error", reason) when the command must end with an error, else ("ok", bytes).
  `extra_filters`: {name: (filter class, config class, {key: value} -> config instance)} for document filters registered by the
  caller (the library has a single document filter, "lcd"; ordering can only be observed with additional ones).
  Raises Unspecified when the documentation leaves the result open; an exception raised by the library itself propagates."""
  it = resolve_type(itype, input_path, INPUT_TYPES)
  ot = resolve_type(otype, output_name, OUTPUT_TYPES)
  if it is None:
    return "error", "unsupported input type"
  if ot is None:
    return "error", "unsupported output type"
  cfg = select_config(config_inline, config_file_text)
  status, general = normalise_section("general", (cfg or {}).get("general"))
  if status == "invalid":
    return "error", "invalid general configuration"
  if status == "either":
    raise Unspecified("general")
  try:
    doc = read_document(it, input_path, cfg)
    if general.get("document_lang") is not None:
      doc.set_lang(general["document_lang"])
    for name in filters:
      if name == "lcd":
        from ttconv.filters.doc.lcd import LCDDocFilter
        LCDDocFilter(_module_config("lcd", cfg)).process(doc)
      elif extra_filters and name in extra_filters:
        fcls, make = extra_filters[name]
        fcls(make((cfg or {}).get(name))).process(doc)
      else:
        raise Unspecified(f"unknown filter {name}")
    return "ok", write_document(ot, doc, cfg)
  except ValueError as e:
    if "must be rejected" in str(e):
      return "error", str(e)
    raise
