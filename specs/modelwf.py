"""Native well-formedness checker for the canonical model (oracle of C15, bounded tier and replays).

Walks real ttconv.model objects through their *private link fields* with visited sets (terminates on cycles) and checks the
clauses of the property statement.  Written from the statement and doc/data_model.md, independent of the guards in model.py.
"""
from fractions import Fraction

# content model: parent kind -> allowed child kinds
ALLOWED = {
  "Body": {"Div"}, "Div": {"P", "Div"}, "P": {"Span", "Br", "Ruby"}, "Span": {"Span", "Br", "Text"},
  "Br": set(), "Text": set(), "Region": set(),
  "Ruby": {"Rb", "Rt", "Rp", "Rbc", "Rtc"}, "Rb": {"Span"}, "Rt": {"Span"}, "Rp": {"Span"}, "Rbc": {"Rb"}, "Rtc": {"Rt", "Rp"},
  "ISD.Region": {"Body"},
}
RUBY_PATTERNS = [["Rb", "Rt"], ["Rb", "Rp", "Rt", "Rp"], ["Rbc", "Rtc"], ["Rbc", "Rtc", "Rtc"]]


def kind(e):
  n = type(e).__qualname__
  return n


def rtc_ok(ks):
  """Rtc children: Rt+ | Rp Rt+ Rp, or a prefix of such a sequence (elements are built incrementally)"""
  if not ks:
    return True
  if ks[0] == "Rp":
    body = ks[1:]
    if body and body[-1] == "Rp":
      body = body[:-1]
      return len(body) >= 1 and all(k == "Rt" for k in body)
    return all(k == "Rt" for k in body)
  return all(k == "Rt" for k in ks)


def ruby_ok(ks):
  """no children (a ruby under construction) or exactly one of the four patterns: a Ruby has no single-child push, so a proper
  prefix of a pattern can only be what a rejected push_children left behind"""
  return not ks or ks in RUBY_PATTERNS


def children_by_links(e, limit=10000):
  """follow first/next links; -> (list, problem or None)"""
  out, seen = [], set()
  c = e._first_child
  while c is not None:
    if id(c) in seen:
      return out, "sibling links form a cycle"
    seen.add(id(c))
    out.append(c)
    if len(out) > limit:
      return out, "child list too long"
    c = c._next_sibling
  return out, None


def check(elements, docs, valid_value=None):
  """elements: every element object that exists; docs: every document.  -> list of (clause, message)"""
  problems = []
  ids = {id(e) for e in elements}
  for e in elements:
    k = kind(e)
    cs, prob = children_by_links(e)
    if prob:
      problems.append(("links", f"{k}: {prob}"))
      continue
    # first/last/next/prev/parent agreement
    if (e._first_child is None) != (e._last_child is None):
      problems.append(("links", f"{k}: first/last disagree"))
    if cs and e._last_child is not cs[-1]:
      problems.append(("links", f"{k}: last_child is not the end of the next-chain"))
    prev = None
    for c in cs:
      if c._parent is not e:
        problems.append(("links", f"{k}: child {kind(c)} has another parent"))
      if c._previous_sibling is not prev:
        problems.append(("links", f"{k}: previous_sibling of {kind(c)} inconsistent"))
      prev = c
    if cs and cs[-1]._next_sibling is not None:
      problems.append(("links", f"{k}: last child has a next sibling"))
    try:
      if len(e) != len(cs) or list(e) != cs:
        problems.append(("links", f"{k}: len()/iteration disagree with the links"))
    except Exception as ex:  # pylint: disable=broad-except
      problems.append(("links", f"{k}: len()/iter raised {ex!r}"))
    if e._parent is None:
      if e._next_sibling is not None or e._previous_sibling is not None:
        problems.append(("links", f"{k}: root with siblings"))
    else:
      pcs, _ = children_by_links(e._parent)
      if sum(1 for c in pcs if c is e) != 1:
        problems.append(("links", f"{k}: has parent {kind(e._parent)} but occurs {sum(1 for c in pcs if c is e)} times in its child list"))
      if id(e._parent) not in ids:
        problems.append(("links", f"{k}: parent outside the universe"))
    # acyclic
    seen, a = set(), e
    while a is not None:
      if id(a) in seen:
        problems.append(("acyclic", f"{k}: parent chain forms a cycle"))
        break
      seen.add(id(a))
      a = a._parent
    # one document per tree
    if e._parent is not None and e._doc is not e._parent._doc:
      problems.append(("one-document", f"{k}: document differs from its parent's ({kind(e._parent)})"))
    # content model
    for c in cs:
      if kind(c) not in ALLOWED.get(k, set()):
        problems.append(("content-model", f"{k} has a {kind(c)} child"))
    ks = [kind(c) for c in cs]
    if k == "Ruby" and not ruby_ok(ks):
      problems.append(("content-model", f"Ruby children {ks}"))
    if k == "Rtc" and not rtc_ok(ks):
      problems.append(("content-model", f"Rtc children {ks}"))
    if k == "ISD.Region" and len(cs) > 1:
      problems.append(("content-model", "ISD.Region with more than one body"))
    # region registry
    r = e._region
    if r is not None:
      d = e._doc
      if d is None:
        problems.append(("region-registry", f"{k} references region {r._id!r} but has no document"))
      elif d._regions.get(r._id) is not r:
        problems.append(("region-registry", f"{k} references a region object that is not registered under {r._id!r} in its document"))
    # values
    if valid_value is not None:
      for p, v in e._styles.items():
        if not valid_value(p, v):
          problems.append(("values", f"{k} stores invalid {p.__name__} = {v!r}"))
      for st in e._sets:
        if not valid_value(st.style_property, st.value):
          problems.append(("values", f"{k} has an animation step with invalid {st.style_property.__name__} = {st.value!r}"))
  if valid_value is not None:
    for d in docs:
      for p, v in getattr(d, "_initial_values", {}).items():
        if not valid_value(p, v):
          problems.append(("values", f"document stores invalid initial {p.__name__} = {v!r}"))
  return problems


def fingerprint(elements, docs):
  """everything observable about the universe, by object index (for `rejected operation leaves the model unchanged`)"""
  idx = {id(o): i for i, o in enumerate(list(elements) + list(docs))}
  ref = lambda o: None if o is None else idx.get(id(o), "outside")   # noqa: E731
  out = []
  for e in elements:
    out.append((ref(e._parent), ref(e._first_child), ref(e._last_child), ref(e._next_sibling), ref(e._previous_sibling),
                ref(e._doc), ref(e._region), e._id, e._begin, e._end, str(e._space), e._lang, getattr(e, "_text", None),
                tuple(sorted((p.__name__, repr(v)) for p, v in e._styles.items())),
                tuple((s.style_property.__name__, s.begin, s.end, repr(s.value)) for s in e._sets)))
  for d in docs:
    out.append((tuple(sorted((k, ref(v)) for k, v in d._regions.items())), ref(getattr(d, "_body", None)),
                tuple(sorted((p.__name__, repr(v)) for p, v in getattr(d, "_initial_values", {}).items()))))
  return tuple(out)
