"""Independent oracle for C06 / C07: strict SubRip and WebVTT cue parsers and the reference flattening of a document into cues.

Written from the formats (W3C "WebVTT: The Web Video Text Tracks Format" sections 4.1-4.5; SubRip as commonly specified:
counter line, `HH:MM:SS,mmm --> HH:MM:SS,mmm`, text lines, blank line; tags <b> <i> <u> <font color>) and from the
statements of C06 / C07 -- not from ttconv's writers.  The reference flattening reads the document through the ISD oracle
specs/isd.py (`snapshot`, `change_times`).  stdlib only; ttconv is touched only through specs/isd.py's public getters.

Vocabulary
  token      (ch, chain): one character of visible text with the chain of snapshot nodes that contain it (region node first),
             or (NL, None): a structural line break (br, paragraph boundary, region boundary)
  line form  list of lines, each a list of (ch, chain); line terminators inside text (\\n, \\r, \\r\\n) and structural breaks
             are all line breaks; empty lines do not exist (a payload cannot contain one)
  problem    (code, detail): a violation of the grammar; `code` is a stable class name
"""
from __future__ import annotations

import html
import re
from fractions import Fraction
from math import floor

NL = "\n"
BLANK_CHARS = " \t\r\n"

# ---------------------------------------------------------------------------------------------------------------------
# times


def to_ms(t: Fraction, mode: str = "even") -> int:
  """seconds -> whole milliseconds, to the nearest; ties to even ("even") or upwards ("up")"""
  x = t * 1000          # (no Fraction(t): t may be a symbolic rational in the proof tier)
  if mode == "even":
    return round(x)
  return floor(x + Fraction(1, 2))


def is_tie(t: Fraction) -> bool:
  return (Fraction(t) * 1000 * 2).denominator == 1 and (Fraction(t) * 1000).denominator != 1


_LT = re.compile(r"\r\n|\r|\n")


def split_lines(text: str):
  """every line terminator a SubRip / WebVTT parser knows: CRLF, CR, LF"""
  return _LT.split(text)


# ---------------------------------------------------------------------------------------------------------------------
# colours

_CSS_NAMES = {
  "white": (255, 255, 255, 255), "lime": (0, 255, 0, 255), "cyan": (0, 255, 255, 255), "aqua": (0, 255, 255, 255),
  "red": (255, 0, 0, 255), "yellow": (255, 255, 0, 255), "magenta": (255, 0, 255, 255), "fuchsia": (255, 0, 255, 255),
  "blue": (0, 0, 255, 255), "black": (0, 0, 0, 255), "transparent": (0, 0, 0, 0), "green": (0, 128, 0, 255),
  "silver": (192, 192, 192, 255), "gray": (128, 128, 128, 255), "maroon": (128, 0, 0, 255), "purple": (128, 0, 128, 255),
  "olive": (128, 128, 0, 255), "navy": (0, 0, 128, 255), "teal": (0, 128, 128, 255),
}


def parse_color(s: str):
  """CSS / SubRip colour -> (r, g, b, a) with 8-bit components, or None"""
  s = s.strip().lower()
  m = re.fullmatch(r"#([0-9a-f]{6})([0-9a-f]{2})?", s)
  if m:
    v = m.group(1)
    a = int(m.group(2), 16) if m.group(2) else 255
    return (int(v[0:2], 16), int(v[2:4], 16), int(v[4:6], 16), a)
  m = re.fullmatch(r"#([0-9a-f])([0-9a-f])([0-9a-f])", s)
  if m:
    return tuple(int(c * 2, 16) for c in m.groups()) + (255,)
  m = re.fullmatch(r"rgba?\(\s*(\d+)\s*,\s*(\d+)\s*,\s*(\d+)\s*(?:,\s*([0-9.]+)\s*)?\)", s)
  if m:
    a = 255 if m.group(4) is None else round(float(m.group(4)) * 255)
    comps = (int(m.group(1)), int(m.group(2)), int(m.group(3)), a)
    return comps if all(0 <= c <= 255 for c in comps) else None
  return _CSS_NAMES.get(s)


# ---------------------------------------------------------------------------------------------------------------------
# SubRip

_SRT_TIME = r"(\d{2,}):([0-5]\d):([0-5]\d),(\d{3})"
_SRT_TIMING = re.compile(_SRT_TIME + " --> " + _SRT_TIME)


def _hmsf(g):
  return ((int(g[0]) * 60 + int(g[1])) * 60 + int(g[2])) * 1000 + int(g[3])


def parse_srt(text: str):
  """strict SubRip reader -> (cues, problems); cue = {number, begin, end (ms), payload (lines joined by \\n), line}

  file := blank* (cue (blank+ cue)*)? blank*      cue := counter EOL timing EOL (non-empty line EOL)+
  A non-blank line that follows a blank line and does not begin a cue cannot be attributed to any cue: that is what an
  empty line inside a payload looks like to a reader."""
  problems = []
  cues = []
  lines = split_lines(text)
  n = len(lines)
  i = 0
  while i < n:
    if lines[i] == "":
      i += 1
      continue
    ok = re.fullmatch(r"\d+", lines[i]) is not None and i + 1 < n and _SRT_TIMING.fullmatch(lines[i + 1]) is not None
    if not ok:
      if re.fullmatch(r"\d+", lines[i]) is None:
        problems.append(("stray-text-after-blank-line", f"line {i + 1}: {lines[i]!r} is neither a counter nor inside a cue"))
      else:
        problems.append(("timing-line-expected", f"line {i + 2}: {lines[i + 1] if i + 1 < n else None!r}"))
      while i < n and lines[i] != "":
        i += 1
      continue
    g = _SRT_TIMING.fullmatch(lines[i + 1]).groups()
    j = i + 2
    payload = []
    while j < n and lines[j] != "":
      payload.append(lines[j])
      j += 1
    if not payload:
      problems.append(("cue-without-text", f"cue at line {i + 1}"))
    cues.append({"number": int(lines[i]), "begin": _hmsf(g[0:4]), "end": _hmsf(g[4:8]), "payload": NL.join(payload), "line": i + 1})
    i = j
  return cues, problems


_SRT_TAG = re.compile(r"<(/?)([biu])>|<font\s+color\s*=\s*(?:\"([^\"<>]*)\"|'([^'<>]*)'|([^\s\"'<>]+))\s*>|<(/)font>", re.I)


def srt_markup(payload: str):
  """-> (chars, problems); chars = [(ch, {"b","i","u": bool, "color": rgba|None})]; only the SubRip tags are tags, every
  other character is text (SubRip has no escaping)"""
  problems = []
  out = []
  stack = []      # (name, colour)
  pos = 0

  def state():
    col = None
    cols = []
    for name, c in stack:
      if name == "font":
        col = c
        cols.append(c)
    names = {name for name, _ in stack}
    return {"b": "b" in names, "i": "i" in names, "u": "u" in names, "color": col, "tagged_color": any(nm == "font" for nm, _ in stack),
            "color_stack": tuple(cols)}

  for m in _SRT_TAG.finditer(payload):
    st = state()
    for ch in payload[pos:m.start()]:
      out.append((ch, st))
    pos = m.end()
    if m.group(2):
      name, closing = m.group(2).lower(), bool(m.group(1))
      colour = None
    elif m.group(6):
      name, closing, colour = "font", True, None
    else:
      name, closing = "font", False
      spec = m.group(3) if m.group(3) is not None else (m.group(4) if m.group(4) is not None else m.group(5))
      colour = parse_color(spec)
      if colour is None:
        problems.append(("bad-colour", f"{m.group(0)!r}"))
    if not closing:
      stack.append((name, colour))
    elif stack and stack[-1][0] == name:
      stack.pop()
    else:
      problems.append(("tag-not-nested", f"{m.group(0)!r} closes {stack[-1][0] if stack else 'nothing'!r} in {payload!r}"))
      for k in range(len(stack) - 1, -1, -1):
        if stack[k][0] == name:
          del stack[k]
          break
  st = state()
  for ch in payload[pos:]:
    out.append((ch, st))
  if stack:
    problems.append(("tag-not-closed", f"<{stack[-1][0]}> in {payload!r}"))
  return out, problems


# ---------------------------------------------------------------------------------------------------------------------
# WebVTT

_VTT_TS = r"(?:(\d{2,}):)?([0-5]\d):([0-5]\d)\.(\d{3})"
_VTT_TIMING = re.compile(r"(" + _VTT_TS + r")[ \t]+-->[ \t]+(" + _VTT_TS + r")((?:[ \t]+[^ \t]+)*)[ \t]*")
_PCT = r"(\d+(?:\.\d+)?)%"


def _vtt_ms(h, m, s, t):
  return ((int(h or 0) * 60 + int(m)) * 60 + int(s)) * 1000 + int(t)


def parse_settings(s: str):
  """cue settings list -> (dict, problems)   (WebVTT 4.4)"""
  out, problems = {}, []
  for item in s.split():
    name, sep, value = item.partition(":")
    bad = False
    if not sep or not value or name in out:
      bad = True
    elif name == "vertical":
      bad = value not in ("rl", "lr")
    elif name == "line":
      m = re.fullmatch(r"(?:" + _PCT + r"|(-?\d+))(?:,(start|center|end))?", value)
      bad = m is None or (m.group(1) is not None and not 0 <= float(m.group(1)) <= 100)
      if not bad:
        out["line_value"] = Fraction(m.group(1)) if m.group(1) is not None else None
        out["line_number"] = int(m.group(2)) if m.group(2) is not None else None
        out["line_align"] = m.group(3)
    elif name == "position":
      m = re.fullmatch(_PCT + r"(?:,(line-left|center|line-right))?", value)
      bad = m is None or not 0 <= float(m.group(1)) <= 100
    elif name == "size":
      m = re.fullmatch(_PCT, value)
      bad = m is None or not 0 <= float(m.group(1)) <= 100
    elif name == "align":
      bad = value not in ("start", "center", "end", "left", "right")
    elif name == "region":
      bad = False
    else:
      bad = True
    if bad:
      problems.append(("bad-cue-setting", item))
    else:
      out[name] = value
  return out, problems


_CSS_RULE = re.compile(r"::cue(?:\(([^)]*)\))?\s*\{([^{}]*)\}")


def parse_style_block(lines):
  """the CSS of a STYLE block -> ({class name: {property: value}}, problems); only `::cue` / `::cue(.class)` rules"""
  css = NL.join(lines)
  classes, problems = {}, []
  rest = _CSS_RULE.sub("", css)
  if rest.strip():
    problems.append(("style-block-syntax", rest.strip()[:60]))
  for m in _CSS_RULE.finditer(css):
    sel = (m.group(1) or "").strip()
    decls = {}
    for d in m.group(2).split(";"):
      if not d.strip():
        continue
      prop, sep, val = d.partition(":")
      if not sep or not prop.strip() or not val.strip():
        problems.append(("style-block-syntax", d.strip()[:60]))
        continue
      decls[prop.strip().lower()] = val.strip()
    if sel == "":
      classes.setdefault("", {}).update(decls)
    elif re.fullmatch(r"\.[A-Za-z_][-A-Za-z0-9_]*", sel):
      classes.setdefault(sel[1:], {}).update(decls)
    else:
      problems.append(("style-block-selector", sel[:60]))
  return classes, problems


def parse_vtt(text: str):
  """strict WebVTT reader -> (doc, problems); doc = {"classes": {...}, "cues": [cue]},
  cue = {id, begin, end (ms), settings {...}, payload, line}"""
  problems = []
  lines = split_lines(text)
  doc = {"classes": {}, "cues": [], "style_blocks": 0}
  first = lines[0] if lines else ""
  if first.startswith("﻿"):
    first = first[1:]
  if not (first == "WEBVTT" or first.startswith("WEBVTT ") or first.startswith("WEBVTT\t")):
    problems.append(("header", f"first line {first!r}"))
    return doc, problems
  i = 1
  n = len(lines)
  # header block: up to the first blank line, must not contain "-->"
  while i < n and lines[i] != "":
    if "-->" in lines[i]:
      problems.append(("header", f"line {i + 1}: cue directly after the signature"))
      break
    i += 1
  seen_cue = False
  while i < n:
    if lines[i] == "":
      i += 1
      continue
    j = i
    while j < n and lines[j] != "":
      j += 1
    block = lines[i:j]
    at = i + 1
    i = j
    head = block[0]
    arrow0 = "-->" in head
    if not arrow0 and re.fullmatch(r"STYLE[ \t]*", head):
      if seen_cue:
        problems.append(("style-after-cue", f"line {at}"))
      if any("-->" in ln for ln in block):
        problems.append(("arrow-in-style-block", f"line {at}"))
      cl, pr = parse_style_block(block[1:])
      for k, v in cl.items():
        doc["classes"].setdefault(k, {}).update(v)
      problems += pr
      doc["style_blocks"] += 1
      continue
    if not arrow0 and (head == "NOTE" or head.startswith("NOTE ") or head.startswith("NOTE\t")):
      if any("-->" in ln for ln in block):
        problems.append(("arrow-in-comment", f"line {at}"))
      continue
    if not arrow0 and re.fullmatch(r"REGION[ \t]*", head):
      if seen_cue:
        problems.append(("region-after-cue", f"line {at}"))
      continue
    if arrow0:
      ident, timing, payload = None, head, block[1:]
    elif len(block) > 1 and "-->" in block[1]:
      ident, timing, payload = head, block[1], block[2:]
    else:
      problems.append(("stray-text-after-blank-line", f"line {at}: {head!r} does not begin a cue or a block"))
      continue
    seen_cue = True
    m = _VTT_TIMING.fullmatch(timing)
    if m is None:
      if re.match(r"[ \t]*[0-9]", timing):
        problems.append(("timing-line-syntax", f"line {at}: {timing!r}"))
      else:
        # text with an arrow at the start of a block: to a reader this is what payload text after an empty line looks like
        problems.append(("stray-text-after-blank-line", f"line {at}: {timing!r} follows a blank line and is not a timing line"))
      continue
    g = m.groups()
    settings, pr = parse_settings(g[10] or "")
    problems += pr
    for ln in payload:
      if "-->" in ln:
        problems.append(("arrow-in-payload", f"{ln!r}"))
    doc["cues"].append({"id": ident, "begin": _vtt_ms(*g[1:5]), "end": _vtt_ms(*g[6:10]), "settings": settings,
                        "payload": NL.join(payload), "line": at})
  return doc, problems


# WebVTT 5.1 default classes
VTT_DEFAULT_CLASSES = {}
for _n in ("white", "lime", "cyan", "red", "yellow", "magenta", "blue", "black"):
  VTT_DEFAULT_CLASSES[_n] = {"color": _n}
  VTT_DEFAULT_CLASSES["bg_" + _n] = {"background-color": _n}

_VTT_CREF = re.compile(r"&(?:#([0-9]+)|#[xX]([0-9a-fA-F]+)|([A-Za-z][A-Za-z0-9]*));")
_VTT_TAG = re.compile(r"<(/?)([A-Za-z]+)((?:\.[^ \t\n\r.<>&]+)*)(?:[ \t]+([^<>&\n\r]*))?>")
_VTT_TIMETAG = re.compile(r"<(?:\d{2,}:)?[0-5]\d:[0-5]\d\.\d{3}>")
_VTT_TAG_NAMES = ("c", "i", "b", "u", "ruby", "rt", "v", "lang")


def vtt_markup(payload: str, classes=None):
  """WebVTT cue text (4.2.2) -> (chars, problems); chars = [(ch, attrs)], attrs = {"b","i","u": bool, "color": rgba|None,
  "bg": rgba|None, "rt": bool, "classes": (..)}.  A `&` that does not begin a character reference and a `<` that does not
  begin a tag are reported and read as text."""
  classes = classes or {}
  problems = []
  out = []
  stack = []    # (name, classes)

  def lookup(cls_name, prop):
    rule = classes.get(cls_name)
    if rule is None:
      rule = VTT_DEFAULT_CLASSES.get(cls_name)
    if rule is None:
      return "undefined"
    return rule.get(prop)

  def state():
    names = [nm for nm, _ in stack]
    color = bg = None
    cls_all = []
    cols = []
    for _, cl in stack:
      for c in cl:
        cls_all.append(c)
        v = lookup(c, "color")
        if v == "undefined":
          continue
        if v is not None:
          color = parse_color(v)
          cols.append(color)
        v = lookup(c, "background-color")
        if v is not None:
          bg = parse_color(v)
    return {"b": "b" in names, "i": "i" in names, "u": "u" in names, "color": color, "bg": bg, "rt": "rt" in names,
            "classes": tuple(cls_all), "color_stack": tuple(cols)}

  i, n = 0, len(payload)
  st = state()
  while i < n:
    ch = payload[i]
    if ch == "&":
      m = _VTT_CREF.match(payload, i)
      if m is None:
        problems.append(("unescaped-ampersand", f"{payload[i:i + 8]!r}"))
        out.append((ch, st))
        i += 1
        continue
      if m.group(1) is not None:
        txt = chr(int(m.group(1)))
      elif m.group(2) is not None:
        txt = chr(int(m.group(2), 16))
      else:
        txt = html.unescape(m.group(0))
        if txt == m.group(0):
          problems.append(("unknown-character-reference", m.group(0)))
      for c in txt:
        out.append((c, st))
      i = m.end()
      continue
    if ch == "<":
      if _VTT_TIMETAG.match(payload, i):
        i = _VTT_TIMETAG.match(payload, i).end()
        continue
      m = _VTT_TAG.match(payload, i)
      if m is None or m.group(2) not in _VTT_TAG_NAMES or (m.group(1) and (m.group(3) or m.group(4))):
        problems.append(("unescaped-less-than", f"{payload[i:i + 8]!r}"))
        out.append((ch, st))
        i += 1
        continue
      name = m.group(2)
      if not m.group(1):
        cl = tuple(c for c in m.group(3).split(".") if c)
        for c in cl:
          if lookup(c, "color") == "undefined":
            problems.append(("class-undefined", c))
        stack.append((name, cl))
      else:
        if stack and stack[-1][0] == "rt" and name == "ruby":
          stack.pop()         # the rt end tag may be omitted before </ruby>
        if stack and stack[-1][0] == name:
          stack.pop()
        else:
          problems.append(("tag-not-nested", f"</{name}> closes {stack[-1][0] if stack else 'nothing'!r} in {payload!r}"))
          for k in range(len(stack) - 1, -1, -1):
            if stack[k][0] == name:
              del stack[k]
              break
      st = state()
      i = m.end()
      continue
    out.append((ch, st))
    i += 1
  if stack:
    problems.append(("tag-not-closed", f"<{stack[-1][0]}> in {payload!r}"))
  return out, problems


def plain(chars) -> str:
  return "".join(c for c, _ in chars)


# ---------------------------------------------------------------------------------------------------------------------
# sequence-level grammar (both formats)


def sequence_problems(cues, numbering, same_interval_ok=False):
  """numbers consecutive from 1 (numbering: "required" / "absent"), begin < end, non-decreasing and non-overlapping"""
  problems = []
  for k, c in enumerate(cues):
    num = c.get("number", c.get("id"))
    if numbering == "required":
      if str(num) != str(k + 1):
        problems.append(("numbering", f"cue {k + 1} is numbered {num!r}"))
    elif numbering == "absent" and num is not None:
      problems.append(("numbering-unexpected", f"cue {k + 1} has the identifier {num!r}"))
    if not c["begin"] < c["end"]:
      problems.append(("begin-not-before-end", f"cue {k + 1}: {c['begin']} ms --> {c['end']} ms"))
    if k:
      p = cues[k - 1]
      if same_interval_ok and (p["begin"], p["end"]) == (c["begin"], c["end"]):
        continue
      if c["begin"] < p["begin"]:
        problems.append(("order", f"cue {k + 1} begins at {c['begin']} ms, before cue {k} ({p['begin']} ms)"))
      elif c["begin"] < p["end"]:
        problems.append(("overlap", f"cue {k + 1} begins at {c['begin']} ms, cue {k} ends at {p['end']} ms"))
  return problems


# ---------------------------------------------------------------------------------------------------------------------
# reference flattening

RUBY_MODES = ("base", "rt", "all")     # which ruby children are text of the cue: bases only / bases and rt / all (rp too)


def flatten_inline(node, chain, out, ruby):
  """inline content of a paragraph in document order"""
  kind = node[0]
  if kind == "Text":
    for ch in node[1]:
      out.append((ch, chain))
    return
  if kind == "Br":
    out.append((NL, None))
    return
  if kind in ("Rt", "Rtc") and ruby == "base":
    return
  if kind == "Rp" and ruby != "all":
    return
  sub = chain + (node,)
  for c in node[2]:
    flatten_inline(c, sub, out, ruby)


def flatten_block(node, chain, out, ruby):
  """region / body / div: every paragraph is followed by a boundary"""
  sub = chain + (node,)
  for c in node[2]:
    if c[0] == "P":
      flatten_inline(c, sub, out, ruby)
      out.append((NL, None))
    else:
      flatten_block(c, sub, out, ruby)


def region_tokens(region_node, ruby="base"):
  out = []
  flatten_block(region_node, (), out, ruby)
  return out


def line_form(tokens):
  """tokens -> [[(ch, chain), ..], ..] without empty lines"""
  lines, cur = [], []
  for ch, chain in tokens:
    if ch in "\r\n":
      if cur:
        lines.append(cur)
      cur = []
    else:
      cur.append((ch, chain))
  if cur:
    lines.append(cur)
  return lines


def text_of(lines) -> str:
  return NL.join("".join(ch for ch, _ in ln) for ln in lines)


def is_blank(text: str, wide: bool = False) -> bool:
  """blank = nothing but TTML white space; `wide`: the other reading of `blank` in the statement -- nothing but characters that
  Unicode classifies as white space (NBSP, IDEOGRAPHIC SPACE, LINE SEPARATOR, ...), which are ordinary characters for TTML
  but show nothing either"""
  return all(c in BLANK_CHARS or (wide and c.isspace()) for c in text)


def drop_blank_lines(lines, wide: bool = False):
  return [ln for ln in lines if not all(ch in BLANK_CHARS or (wide and ch.isspace()) for ch, _ in ln)]


def reference_intervals(doc, ruby="base", snapshot=None, change_times=None):
  """-> [{"begin": Fraction, "end": Fraction|None, "regions": [(region id, line form)]}] for every interval between two
  successive change times (the last one is unbounded), in order, blank or not ("bodies": number of regions with content).  A ruby with a part that is not
  presented (inactive, empty, flowed elsewhere) contributes the text of the parts that are."""
  from specs import isd as S
  snapshot = snapshot or S.snapshot
  cts = (change_times or S.change_times)(doc)
  out = []
  for k, c in enumerate(cts):
    regions, flags = snapshot(doc, c)
    end = cts[k + 1] if k + 1 < len(cts) else None
    out.append({"begin": c, "end": end, "regions": [(rid, line_form(region_tokens(node, ruby))) for rid, node in regions.items()],
                "bodies": sum(1 for node in regions.values() if node[2])})
  return out


def interval_lines(iv):
  lines = []
  for _, ls in iv["regions"]:
    lines += ls
  return lines


def expected_cues(doc, config=None, ruby="base", rounding="even", blank_lines="keep", intervals=None, wide_blank=False):
  """The cues the statement of C06 requires -> [{"begin", "end" (ms), "text", "unbounded", "t" (exact begin), "lines", "region"}]
  or None (document outside the statement).

  config: {"format": "srt"|"vtt", "line_position": bool}: with WebVTT line positions every region keeps its own cue (same
  interval, region order); otherwise one cue per interval with the regions' text in region order.  An interval whose rounded
  begin and end coincide has no cue (begin < end is required of every cue)."""
  config = config or {}
  per_region = config.get("format") == "vtt" and bool(config.get("line_position"))
  ivs = intervals if intervals is not None else reference_intervals(doc, ruby)
  if ivs is None:
    return None
  out = []
  for iv in ivs:
    b = to_ms(iv["begin"], rounding)
    e = to_ms(iv["end"], rounding) if iv["end"] is not None else b + 10000
    if e <= b:
      continue
    groups = [(rid, ls) for rid, ls in iv["regions"]] if per_region else [(None, interval_lines(iv))]
    for rid, ls in groups:
      if blank_lines == "drop":
        ls = drop_blank_lines(ls, wide_blank)
      txt = text_of(ls)
      if is_blank(txt, wide_blank):
        continue
      out.append({"begin": b, "end": e, "text": txt, "unbounded": iv["end"] is None, "t": iv["begin"], "lines": ls, "region": rid,
                  "bodies": iv.get("bodies", 1)})
  return out


# ---------------------------------------------------------------------------------------------------------------------
# timeline comparison: the function "time -> payload" of two cue lists


def group_same_interval(cues):
  """consecutive cues over the same interval (one per region) -> one entry with the payloads joined by a line break"""
  out = []
  for c in cues:
    if out and (out[-1]["begin"], out[-1]["end"]) == (c["begin"], c["end"]):
      out[-1] = dict(out[-1], text=out[-1]["text"] + NL + c["text"])
    else:
      out.append({"begin": c["begin"], "end": c["end"], "text": c["text"], "unbounded": c.get("unbounded", False)})
  return out


def merge_adjacent(cues):
  out = []
  for c in cues:
    if out and out[-1]["end"] == c["begin"] and out[-1]["text"] == c["text"] and not out[-1].get("unbounded"):
      out[-1] = dict(out[-1], end=c["end"], unbounded=c.get("unbounded", False))
    else:
      out.append(dict(c))
  return out


def timeline_diff(expected, actual):
  """expected: expected_cues(..); actual: [{"begin","end","text"}] in file order -> None when both describe the same
  function from time to payload, else (kind, message).  Successive cues with equal payload that touch are one stretch (the
  statement fixes what is shown when, significant times at which nothing changes may or may not split a cue); the
  unbounded tail ends 10 s after the begin of the last cue actually written."""
  exp = merge_adjacent(group_same_interval(expected))
  act = merge_adjacent(group_same_interval(actual))
  if exp and exp[-1].get("unbounded"):
    tail = exp.pop()
    if not act:
      return ("cue-missing", f"no cue for the unbounded interval from {tail['begin']} ms with text {tail['text']!r}")
    last = act.pop()
    lb = actual[-1]["begin"]
    if last["text"] != tail["text"]:
      return ("text", _text_msg(tail, last))
    if last["begin"] != tail["begin"]:
      return ("interval", f"last stretch {tail['text']!r} begins at {last['begin']} ms, required {tail['begin']} ms")
    if lb < tail["begin"] or last["end"] != lb + 10000:
      return ("default-end", f"unbounded last cue begins at {lb} ms and ends at {last['end']} ms, required {lb + 10000} ms (begin + 10 s)")
  for k in range(max(len(exp), len(act))):
    e = exp[k] if k < len(exp) else None
    a = act[k] if k < len(act) else None
    if e is None:
      return ("cue-extra", f"cue {a['begin']}-{a['end']} ms {a['text']!r} where no non-blank text is visible")
    if a is None:
      return ("cue-missing", f"no cue for {e['begin']}-{e['end']} ms {e['text']!r}")
    if (e["begin"], e["end"]) != (a["begin"], a["end"]):
      if e["text"] == a["text"]:
        return ("interval", f"{a['text']!r} shown {a['begin']}-{a['end']} ms, required {e['begin']}-{e['end']} ms")
      if a["end"] <= e["begin"] or (a["begin"] < e["begin"] and not is_blank(a["text"])):
        return ("cue-extra", f"cue {a['begin']}-{a['end']} ms {a['text']!r}; next required cue is {e['begin']}-{e['end']} ms {e['text']!r}")
      if e["end"] <= a["begin"]:
        return ("cue-missing", f"no cue for {e['begin']}-{e['end']} ms {e['text']!r}; next cue is {a['begin']}-{a['end']} ms {a['text']!r}")
      return ("text", _text_msg(e, a))
    if e["text"] != a["text"]:
      return ("text", _text_msg(e, a))
  return None


def _text_msg(e, a):
  return f"{e['begin']}-{e['end']} ms: payload {a['text']!r}, required {e['text']!r}"
