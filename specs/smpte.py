"""SMPTE ST 12-1 labels and counts -- the oracle of C12, written from the standard, independently of ttconv.

Plain Python restricted to integer / rational arithmetic so that the very same functions are executed natively
(bounded tier, replays) and symbolically (pyvc, proof tier).
"""
from fractions import Fraction

RATES = {
  "24": Fraction(24), "25": Fraction(25), "30": Fraction(30), "50": Fraction(50), "60": Fraction(60),
  "30000/1001": Fraction(30000, 1001), "60000/1001": Fraction(60000, 1001), "24000/1001": Fraction(24000, 1001),
}


def nominal(rate: Fraction) -> int:
  """label frame numbers run 0 .. nominal-1"""
  return -((-rate.numerator) // rate.denominator)


def drop(rate: Fraction) -> int:
  """frame numbers skipped at the start of each minute not divisible by ten: 2 at 29.97, 4 at 59.94, none otherwise.
  (SMPTE defines drop-frame counting for the 30/1.001 family only; 24/1.001 has no drop-frame form.)"""
  if rate == Fraction(30000, 1001):
    return 2
  if rate == Fraction(60000, 1001):
    return 4
  return 0


def count(h, m, s, f, rate: Fraction):
  """label -> frame count"""
  r = nominal(rate)
  d = drop(rate)
  total_minutes = 60 * h + m
  return (total_minutes * 60 + s) * r + f - d * (total_minutes - total_minutes // 10)


def valid(h, m, s, f, rate: Fraction):
  """label validity; for drop-frame rates the skipped labels do not exist.  Written with & | so that it can be
  evaluated on symbolic integers without forking."""
  r = nominal(rate)
  d = drop(rate)
  ok = (h >= 0) & (m >= 0) & (m < 60) & (s >= 0) & (s < 60) & (f >= 0) & (f < r)
  if d:
    ok = ok & ~((s == 0) & (m % 10 != 0) & (f < d))
  return ok


def lex_less(a, b):
  """strict lexicographic order on labels (h, m, s, f)"""
  (h1, m1, s1, f1), (h2, m2, s2, f2) = a, b
  return (h1 < h2) | ((h1 == h2) & ((m1 < m2) | ((m1 == m2) & ((s1 < s2) | ((s1 == s2) & (f1 < f2))))))


def label(n: int, rate: Fraction):
  """frame count -> label (concrete only; used by the bounded tier as an independent reference)"""
  r = nominal(rate)
  d = drop(rate)
  if d:
    per10 = 10 * 60 * r - 9 * d
    per1 = 60 * r - d
    tens, rem = divmod(n, per10)
    if rem < 60 * r:
      mins = 0
    else:
      mins = 1 + (rem - 60 * r) // per1
    n = n + d * (9 * tens + mins)
  f = n % r
  s = (n // r) % 60
  m = (n // (r * 60)) % 60
  h = n // (r * 3600)
  return h, m, s, f
