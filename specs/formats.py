"""Grammar-directed generators of SMALL valid files of the five input formats of ttconv, written from the format
specifications (TTML2 / IMSC 1.1, SMPTE RP 2052-10 "Scenarist SCC" + CEA-608, EBU Tech 3264, SubRip, W3C WebVTT), plus the
pools of boundary values used by the structure-aware mutators of rtc/c18.py.

Standard library only, no ttconv import: what is a "valid file" is decided here, not by the code under check.

  gen_ttml(r)  -> X (element tree; `to_xml(tree)` gives the text)       TTML2 / IMSC 1.1 text profile subset
  gen_srt(r)   -> str
  gen_vtt(r)   -> str
  gen_scc(r)   -> str
  gen_stl(r)   -> bytes

Every generator takes a `random.Random` and is deterministic in it.  The grammars deliberately reach the unusual-but-legal
corners named in property C18: ruby whose annotation has its own (shorter) interval, cues without text, end tags without a
start tag (WebVTT and SubRip players ignore them), intervals far below one millisecond (TTML ticks / fractional seconds),
zero-length and inverted intervals, sequential time containers, indefinite durations, every style attribute of IMSC 1.1.
"""
from xml.sax.saxutils import escape, quoteattr

# ---------------------------------------------------------------------------------------------------------------------
# TTML / IMSC

NS = {
  "": "http://www.w3.org/ns/ttml",
  "ttp": "http://www.w3.org/ns/ttml#parameter",
  "tts": "http://www.w3.org/ns/ttml#styling",
  "ttm": "http://www.w3.org/ns/ttml#metadata",
  "ittp": "http://www.w3.org/ns/ttml/profile/imsc1#parameter",
  "itts": "http://www.w3.org/ns/ttml/profile/imsc1#styling",
  "ebutts": "urn:ebu:tt:style",
  "ebuttm": "urn:ebu:tt:metadata",
  "foo": "http://example.com/foo",
}


class X:
  """a tiny XML element: tag and attribute names are prefixed names (`tts:color`); children are X or str"""
  __slots__ = ("tag", "attrs", "children")

  def __init__(self, tag, attrs=None, children=None):
    self.tag = tag
    self.attrs = list(attrs or [])          # [(name, value)] in document order; duplicates are a mutation, not grammar
    self.children = list(children or [])

  def copy(self):
    return X(self.tag, list(self.attrs), [c.copy() if isinstance(c, X) else c for c in self.children])

  def elements(self):
    """self and all descendant elements, document order"""
    out = [self]
    for c in self.children:
      if isinstance(c, X):
        out += c.elements()
    return out

  def parent_map(self):
    return {id(c): p for p in self.elements() for c in p.children if isinstance(c, X)}


def to_xml(root, declaration=True):
  out = ['<?xml version="1.0" encoding="UTF-8"?>\n'] if declaration else []

  def attr_text(e, top):
    seen, parts = set(), []
    if top:
      used = {""}
      for el in e.elements():
        for n in [el.tag] + [a for a, _ in el.attrs]:
          if ":" in n and not n.startswith("xml:"):
            used.add(n.split(":")[0])
      for p in sorted(used):
        if p in NS:
          parts.append(("xmlns" if p == "" else "xmlns:" + p) + "=" + quoteattr(NS[p]))
    for n, v in e.attrs:
      if n in seen:
        continue                              # XML forbids duplicate attributes: keep the first
      seen.add(n)
      parts.append(n + "=" + quoteattr(v))
    return (" " + " ".join(parts)) if parts else ""

  def walk(e, top):
    if not e.children:
      out.append(f"<{e.tag}{attr_text(e, top)}/>")
      return
    out.append(f"<{e.tag}{attr_text(e, top)}>")
    for c in e.children:
      if isinstance(c, X):
        walk(c, False)
      else:
        out.append(escape(c))
    out.append(f"</{e.tag}>")

  walk(root, True)
  return "".join(out)


COLORS = ["red", "white", "transparent", "black", "#FF0000", "#00ff0080", "#FFFFFFFF", "rgb(255,255,0)", "rgba(0,0,0,128)",
          "rgba(12, 34, 56, 0)", "lime", "#000000"]
LENGTHS = ["1c", "0.5c", "100%", "80%", "12px", "1em", "1.5em", "5rh", "2.5rw", "0px", "0%", "150%", "10.5%", "+1c", "2c"]

STYLE_VALUES = {
  "tts:backgroundColor": COLORS,
  "tts:color": COLORS,
  "tts:direction": ["ltr", "rtl"],
  "tts:disparity": ["0%", "1%", "-2%", "1.5rw", "10px", "0.1c"],
  "tts:display": ["auto", "none"],
  "tts:displayAlign": ["before", "center", "after"],
  "tts:extent": ["80% 10%", "100% 100%", "auto", "640px 480px", "50% 50%", "10c 2c", "20rw 10rh", "0% 0%", "1px 1px"],
  "itts:fillLineGap": ["true", "false"],
  "tts:fontFamily": ["default", "monospace", "sansSerif", "serif", "monospaceSansSerif", "monospaceSerif", "proportionalSansSerif",
                     "proportionalSerif", "Arial", "\"Times New Roman\", serif", "'Courier New', monospace", "Arial, Helvetica, sansSerif",
                     "Noto\\ Sans"],
  "tts:fontSize": ["100%", "1c", "1.2em", "24px", "1c 2c", "5rh", "80%", "0.5c", "150%", "2c", "36px 36px"],
  "tts:fontStyle": ["normal", "italic", "oblique"],
  "tts:fontWeight": ["normal", "bold"],
  "tts:lineHeight": ["normal", "125%", "1.2em", "30px", "1c", "100%", "6rh"],
  "ebutts:linePadding": ["0.5c", "0c", "0.25c", "1c"],
  "tts:luminanceGain": ["1.0", "2.5", "1", "0.5", "0"],
  "ebutts:multiRowAlign": ["start", "center", "end", "auto"],
  "tts:opacity": ["1", "0", "0.5", "1.0", "0.25", "2", "-1"],
  "tts:origin": ["10% 10%", "auto", "20px 30px", "0% 0%", "0% 80%", "5c 1c", "10rw 80rh", "50% 50%"],
  "tts:overflow": ["visible", "hidden"],
  "tts:padding": ["1c", "1% 2%", "1px 2px 3px", "1% 2% 3% 4%", "0px", "0.5em 1em", "5% 5% 5% 5%"],
  "tts:position": ["center", "left top", "top left", "10% 20%", "right 10% bottom 20%", "center top 10%", "left 10% center", "bottom",
                   "right", "50% 50%", "left 25% top 75%", "center center", "top", "right bottom", "10px 10px", "left 10px top 20px",
                   "bottom 10% right 10%", "center right", "0% 0%", "100% 100%"],
  "tts:rubyAlign": ["center", "spaceAround"],
  "tts:rubyPosition": ["before", "after", "outside"],
  "tts:rubyReserve": ["none", "both", "before", "after", "outside", "both 1em", "before 50%", "outside 0.5c", "after 10px"],
  "tts:shear": ["0%", "16.67%", "-16.67%", "100%", "-100%", "10%", "6.345103%"],
  "tts:showBackground": ["always", "whenActive"],
  "tts:textAlign": ["left", "center", "right", "start", "end", "justify"],
  "tts:textCombine": ["none", "all"],
  "tts:textDecoration": ["none", "underline", "noUnderline", "lineThrough", "noLineThrough", "overline", "noOverline",
                         "underline overline", "underline lineThrough overline", "noUnderline lineThrough"],
  "tts:textEmphasis": ["none", "auto", "filled", "open", "circle", "dot", "sesame", "filled circle", "open dot before",
                       "sesame after", "red filled", "filled sesame outside", "auto before", "open circle #00ff00 after", "current dot",
                       "outside"],
  "tts:textOutline": ["none", "1px", "red 1px", "5%", "black 5%", "0.1c", "#ffffff80 2px", "rgba(0,0,0,255) 0.05em", "0px"],
  "tts:textShadow": ["none", "1px 1px", "1px 1px 2px", "1px 1px red", "1px 1px 2px red", "2% 2%", "-1px -1px", "0.1em 0.1em 0.1em #000000",
                     "1px 1px, -1px -1px", "1px 1px 2px red, 2px 2px 3px blue", "1px 1px, 2px 2px, 3px 3px, 4px 4px",
                     "0.05c 0.05c rgba(0,0,0,128), -0.05c -0.05c black"],
  "tts:unicodeBidi": ["normal", "embed", "bidiOverride"],
  "tts:visibility": ["visible", "hidden"],
  "tts:wrapOption": ["wrap", "noWrap"],
  "tts:writingMode": ["lrtb", "rltb", "tbrl", "tblr", "lr", "rl", "tb"],
}
STYLE_NAMES = sorted(STYLE_VALUES)
REGION_ONLY = ["tts:displayAlign", "tts:extent", "tts:origin", "tts:overflow", "tts:padding", "tts:position", "tts:showBackground",
               "tts:writingMode", "tts:opacity", "tts:disparity", "tts:luminanceGain"]
INLINE_STYLES = ["tts:backgroundColor", "tts:color", "tts:direction", "tts:display", "tts:fontFamily", "tts:fontSize", "tts:fontStyle",
                 "tts:fontWeight", "tts:textCombine", "tts:textDecoration", "tts:textEmphasis", "tts:textOutline", "tts:textShadow",
                 "tts:unicodeBidi", "tts:visibility", "tts:wrapOption", "tts:opacity", "tts:rubyAlign", "tts:rubyPosition", "tts:shear"]
BLOCK_STYLES = INLINE_STYLES + ["itts:fillLineGap", "tts:lineHeight", "ebutts:linePadding", "ebutts:multiRowAlign", "tts:rubyReserve",
                                "tts:textAlign"]
ROOT_PARAMS = {
  "xml:lang": ["en", "", "fr-CA", "ja", "zh-Hant"],
  "xml:space": ["default", "preserve"],
  "ttp:frameRate": ["24", "25", "30", "50", "60", "1"],
  "ttp:frameRateMultiplier": ["1000 1001", "1 1", "999 1000", "1001 1000"],
  "ttp:subFrameRate": ["1", "2"],
  "ttp:tickRate": ["1", "1000", "10000000", "90000", "3"],
  "ttp:timeBase": ["media", "smpte", "clock"],
  "ttp:dropMode": ["nonDrop", "dropNTSC", "dropPAL"],
  "ttp:cellResolution": ["32 15", "40 24", "1 1", "80 25"],
  "ittp:aspectRatio": ["16 9", "4 3", "1 1"],
  "ttp:displayAspectRatio": ["16 9", "4 3", "64 27"],
  "ittp:activeArea": ["10% 10% 80% 80%", "0% 0% 100% 100%", "12.5% 0% 75% 100%"],
  "tts:extent": ["1920px 1080px", "640px 480px", "1px 1px"],
  "ttp:profile": ["http://www.w3.org/ns/ttml/profile/imsc1/text"],
  "ttp:contentProfiles": ["http://www.w3.org/ns/ttml/profile/imsc1.1/text"],
  "ittp:progressivelyDecodable": ["true", "false"],
}
# values that sit on or beyond the edge of an attribute's value space (used by the mutators for ANY attribute)
BOUNDARY_VALUES = [
  "", " ", "foo", "0", "1", "-1", "+1", "01", "1e9", "1.", ".5", "00", "99999999999999999999", "NaN", "inf", "true", "false", "auto", "none",
  "10%", "-10%", "101%", "10% 10%", "10% 10% 10%", "10% 10% 10% 10%", "10% 10% 10% 10% 10%", "1px", "1px 1px", "1px 1px 1px", "0px 0px",
  "1px 1px 1px 1px 1px", "1px red", "red 1px 1px", "1px 1px 1px red blue", "red", "1c", "-1c", "1c 1c", "0c", "0.5em", "1em 1em", "1rh", "1rw",
  "1rw 1rh", "1 1", "0 0", "0 1", "1 0", "32 15", "1000 1001", "0 1001", "1000 0", "16 9", "0 9", "16 0", "a b", "a b c d e",
  "#fff", "#12345", "#1234567", "#GGGGGG", "rgb(300,0,0)", "rgb(1,2)", "rgba(1,2,3)", "rgba(1,2,3,4,5)", "rgb(-1,0,0)", "transparent",
  "00:00:00", "00:00:01", "00:00:01.5", "00:00:01:00", "00:00:01:99", "99:99:99.999", "0:00:01", "00:00:60", "00:60:00", "00:00:01.0000001",
  "1f", "1.5f", "1t", "1.5t", "0s", "0.0001s", "1e3s", "-1s", "1ms", "0.5ms", "1m", "1h", "1d", "10", "1.5", "1fs", "1frames",
  "par", "seq", "PAR", "media", "smpte", "clock", "dropNTSC", "center", "left", "top", "left top", "top left", "left left", "center center center",
  "left 10%", "10% left", "left 10% top", "right 10% bottom 20%", "bottom 10% right 20% top", "before", "after", "both", "both 1em", "1em both",
  "outside 1em 1em", "filled", "filled filled", "circle circle", "\"x\"", "\"\"", "'", "\"", ",", ", ,", "a,", ",a", "underline noUnderline",
  "container", "base", "text", "delimiter", "baseContainer", "textContainer", "preserve", "default", "r1", "s1", "s1 s1", "s1 s2 s3", "nosuch",
  "é", "日本", "\U0001F600", "\t", "\n", "a" * 300, "9" * 40, "1" + "0" * 400,
]
TEXTS = ["Hello", "world", "a", " ", "", "  two  spaces  ", "\n  indented\n  ", "naïve café", "日本語", "あ", "1 < 2 & 3",
         "line", "-", "...", "\U0001F600", "\u200fאב", "x\u0301", "\t", "UPPER lower", "♪ music ♪"]


def _time(r, syntax, secs, frame_rate, tick_rate):
  """`secs` (a float/int, seconds) printed in one of the TTML <time-expression> forms"""
  if syntax == "clock":
    whole = int(secs)
    frac = secs - whole
    s = f"{whole // 3600:02d}:{whole // 60 % 60:02d}:{whole % 60:02d}"
    if frac or r.random() < 0.3:
      s += ("%.4f" % frac)[1:].rstrip("0") or ".0"
      if s.endswith("."):
        s += "0"
    return s
  if syntax == "frames":
    whole = int(secs)
    f = int((secs - whole) * frame_rate) % frame_rate
    return f"{whole // 3600:02d}:{whole // 60 % 60:02d}:{whole % 60:02d}:{f:02d}"
  if syntax == "s":
    return ("%.4f" % secs).rstrip("0").rstrip(".") + "s"
  if syntax == "ms":
    return ("%.3f" % (secs * 1000)).rstrip("0").rstrip(".") + "ms"
  if syntax == "m":
    return ("%.6f" % (secs / 60)).rstrip("0").rstrip(".") + "m"
  if syntax == "h":
    return ("%.8f" % (secs / 3600)).rstrip("0").rstrip(".") + "h"
  if syntax == "f":
    return f"{int(round(secs * frame_rate))}f"
  if syntax == "t":
    return f"{int(round(secs * tick_rate))}t"
  raise AssertionError(syntax)


class _TtmlGen:
  def __init__(self, r):
    self.r = r
    self.frame_rate = 30
    self.tick_rate = 1
    self.syntaxes = ["clock"]
    self.style_ids = []
    self.region_ids = []
    self.feature = None

  # -- times
  def t(self, secs):
    return _time(self.r, self.r.choice(self.syntaxes), max(0, secs), self.frame_rate, self.tick_rate)

  def interval(self, lo=0.0, span=8.0):
    """timing attributes of one element (possibly none): the unusual-but-legal shapes have real weight"""
    r = self.r
    k = r.random()
    if k < 0.18:
      return []
    b = lo + r.choice([0, 0, 0.5, 1, 1.5, 2, 3, 3.999, 10, 59.5, 3600]) if r.random() < 0.7 else lo + r.random() * span
    d = r.choice([1, 2, 0.5, 0.04, 0.001, 0.0004, 0.0001, 0, 5, 0.999, 1.0001, 10]) if r.random() < 0.8 else r.random() * span
    out = []
    if k < 0.3:
      out = [("begin", self.t(b))]
    elif k < 0.4:
      out = [("end", self.t(b + d))]
    elif k < 0.5:
      out = [("dur", self.t(d))]
    elif k < 0.65:
      out = [("begin", self.t(b)), ("dur", self.t(d))]
    elif k < 0.72:
      out = [("begin", self.t(b)), ("dur", self.t(d)), ("end", self.t(b + r.choice([d, d / 2, 2 * d])))]
    elif k < 0.76:
      out = [("begin", self.t(b + d)), ("end", self.t(b))]          # end before begin: legal, empty interval
    else:
      out = [("begin", self.t(b)), ("end", self.t(b + d))]
    return out

  # -- styles
  def style_attrs(self, names, n=None):
    r = self.r
    n = r.choice([0, 0, 1, 1, 2, 3, 5]) if n is None else n
    out = []
    for name in r.sample(names, min(n, len(names))):
      out.append((name, r.choice(STYLE_VALUES[name])))
    return out

  def refs(self):
    r = self.r
    out = []
    if self.style_ids and r.random() < 0.3:
      out.append(("style", " ".join(r.sample(self.style_ids, r.choice([1, 1, 2]) if len(self.style_ids) > 1 else 1))))
    return out

  def region_ref(self, p=0.4):
    if self.region_ids and self.r.random() < p:
      return [("region", self.r.choice(self.region_ids))]
    return []

  def set_elem(self, names):
    return X("set", self.interval() + self.style_attrs(names, 1))

  def metadata(self):
    r = self.r
    return X("metadata", [], [X("ttm:title", [], ["a title"])] if r.random() < 0.5 else [X("ebuttm:documentMetadata", [], [])])

  # -- inline content
  def text(self):
    return self.r.choice(TEXTS)

  def ruby(self, depth):
    r = self.r
    form = r.choice(["simple", "simple", "delims", "containers", "containers-delims", "multi"])
    timed = r.random() < 0.5                        # annotation active for a part of the base's interval only

    def leaf(kind, text, timing=False):
      at = [("tts:ruby", kind)]
      if timing:
        at += self.interval()
      if kind == "text" and r.random() < 0.3:
        at += [("tts:rubyPosition", r.choice(["before", "after", "outside"]))]
      return X("span", at + self.style_attrs(INLINE_STYLES, r.choice([0, 0, 1])), [text] if text is not None else [])

    base = leaf("base", r.choice(["漢字", "base", "明日"]), timing=r.random() < 0.15)
    rt = leaf("text", r.choice(["かんじ", "rt", "あした"]), timing=timed)
    if form == "simple":
      kids = [base, rt]
    elif form == "delims":
      kids = [base, leaf("delimiter", "("), rt, leaf("delimiter", ")")]
    elif form == "containers":
      kids = [X("span", [("tts:ruby", "baseContainer")], [base]), X("span", [("tts:ruby", "textContainer")] + (self.interval() if r.random() < 0.3 else []), [rt])]
    elif form == "containers-delims":
      kids = [X("span", [("tts:ruby", "baseContainer")], [base]),
              X("span", [("tts:ruby", "textContainer")], [leaf("delimiter", "("), rt, leaf("delimiter", ")")])]
    else:
      kids = [X("span", [("tts:ruby", "baseContainer")], [base, leaf("base", "b2")]),
              X("span", [("tts:ruby", "textContainer")], [rt, leaf("text", "t2", timing=r.random() < 0.5)]),
              X("span", [("tts:ruby", "textContainer"), ("tts:rubyPosition", "after")], [leaf("text", "t3"), leaf("text", "t4")])]
    at = [("tts:ruby", "container")] + (self.interval() if r.random() < 0.3 else []) + self.style_attrs(["tts:rubyAlign", "tts:rubyPosition"], r.choice([0, 1]))
    return X("span", at + self.region_ref(0.05), kids)

  def inline(self, depth):
    r = self.r
    kids = []
    for _ in range(r.choice([1, 1, 2, 3, 4])):
      k = r.random()
      if k < 0.4:
        kids.append(self.text())
      elif k < 0.55:
        kids.append(X("br", self.style_attrs(INLINE_STYLES, r.choice([0, 0, 1])) + (self.interval() if r.random() < 0.1 else [])))
      elif k < 0.85 and depth < 3:
        at = self.interval() if r.random() < 0.5 else []
        at += self.style_attrs(INLINE_STYLES) + self.refs() + self.region_ref(0.1)
        if r.random() < 0.1:
          at.append(("timeContainer", r.choice(["par", "seq"])))
        if r.random() < 0.15:
          at.append(("xml:space", r.choice(["preserve", "default"])))
        if r.random() < 0.1:
          at.append(("xml:lang", r.choice(ROOT_PARAMS["xml:lang"])))
        ch = self.inline(depth + 1)
        if r.random() < 0.12:
          ch.insert(0, self.set_elem(INLINE_STYLES))
        kids.append(X("span", at, ch))
      elif k < 0.93 and depth < 2:
        kids.append(self.ruby(depth))
      elif k < 0.96:
        kids.append(self.metadata())
      else:
        kids.append(X("foo:bar", [("foo:attr", "v")], ["foreign"]))
    return kids

  def p(self, lo):
    r = self.r
    at = self.interval(lo) + self.style_attrs(BLOCK_STYLES) + self.refs() + self.region_ref()
    if r.random() < 0.12:
      at.append(("timeContainer", r.choice(["par", "seq", "seq"])))
    if r.random() < 0.1:
      at.append(("xml:id", f"p{r.randrange(100)}"))
    if r.random() < 0.1:
      at.append(("xml:space", "preserve"))
    kids = []
    if r.random() < 0.12:
      kids.append(self.set_elem(BLOCK_STYLES))
    if r.random() < 0.06:
      return X("p", at, kids)                        # a paragraph without content
    return X("p", at, kids + self.inline(0))

  def div(self, depth=0):
    r = self.r
    at = (self.interval() if r.random() < 0.3 else []) + self.style_attrs(BLOCK_STYLES, r.choice([0, 0, 1, 2])) + self.refs() + self.region_ref(0.25)
    if r.random() < 0.15:
      at.append(("timeContainer", r.choice(["par", "seq", "seq"])))
    kids = []
    if r.random() < 0.08:
      kids.append(self.metadata())
    if r.random() < 0.08:
      kids.append(self.set_elem(BLOCK_STYLES))
    lo = 0.0
    for _ in range(r.choice([0, 1, 1, 2, 2, 3, 4])):
      if depth < 2 and r.random() < 0.12:
        kids.append(self.div(depth + 1))
      else:
        kids.append(self.p(lo))
        lo += r.choice([0, 1, 2, 2.5])
    return X("div", at, kids)

  def region(self, rid):
    r = self.r
    at = [("xml:id", rid)]
    geo = r.random()
    if geo < 0.45:
      at += [("tts:origin", r.choice(STYLE_VALUES["tts:origin"])), ("tts:extent", r.choice(STYLE_VALUES["tts:extent"]))]
    elif geo < 0.7:
      at += [("tts:position", r.choice(STYLE_VALUES["tts:position"])), ("tts:extent", r.choice(STYLE_VALUES["tts:extent"]))]
    elif geo < 0.8:
      at += [("tts:position", r.choice(STYLE_VALUES["tts:position"]))]
    at += self.style_attrs(REGION_ONLY + BLOCK_STYLES) + self.refs()
    if r.random() < 0.3:
      at += self.interval()
    if r.random() < 0.08:
      at.append(("timeContainer", r.choice(["par", "seq"])))
    kids = []
    if r.random() < 0.2:
      kids.append(X("style", self.style_attrs(REGION_ONLY + BLOCK_STYLES, r.choice([1, 2]))))
    for _ in range(r.choice([0, 0, 0, 1, 2])):
      kids.append(self.set_elem(REGION_ONLY + BLOCK_STYLES))
    return X("region", at, kids)

  def document(self):
    r = self.r
    root_at = [("xml:lang", r.choice(ROOT_PARAMS["xml:lang"]))] if r.random() < 0.9 else []
    for name in sorted(ROOT_PARAMS):
      if name != "xml:lang" and r.random() < 0.18:
        root_at.append((name, r.choice(ROOT_PARAMS[name])))
    d = dict(root_at)
    self.frame_rate = int(d.get("ttp:frameRate", 30))
    self.tick_rate = int(d.get("ttp:tickRate", 1)) if "ttp:tickRate" in d else (self.frame_rate if "ttp:frameRate" in d else 1)
    self.syntaxes = r.choice([["clock"], ["clock"], ["s"], ["s", "ms"], ["frames"], ["f"], ["t"], ["clock", "s", "ms", "m", "h", "f", "t", "frames"]])
    if "t" in self.syntaxes and "ttp:tickRate" not in d and r.random() < 0.7:
      root_at.append(("ttp:tickRate", r.choice(["1000", "10000000", "90000"])))
      self.tick_rate = int(root_at[-1][1])
    head_kids = []
    if r.random() < 0.15:
      head_kids.append(self.metadata())
    if r.random() < 0.6:
      st = []
      for _ in range(r.choice([0, 0, 1, 2])):
        st.append(X("initial", self.style_attrs(STYLE_NAMES, 1)))
      n = r.choice([0, 1, 2, 3, 4])
      ids = [f"s{i + 1}" for i in range(n)]
      for i, sid in enumerate(ids):
        at = [("xml:id", sid)] + self.style_attrs(STYLE_NAMES, r.choice([1, 2, 3]))
        if i > 0 and r.random() < 0.4:
          at.append(("style", " ".join(r.sample(ids[:i], r.choice([1, 1, 2]) if i > 1 else 1))))      # acyclic chains only
        st.append(X("style", at))
      self.style_ids = ids
      head_kids.append(X("styling", [], st))
    if r.random() < 0.75:
      self.region_ids = [f"r{i + 1}" for i in range(r.choice([1, 1, 2, 3]))]
      head_kids.append(X("layout", [], [self.region(rid) for rid in self.region_ids]))
    kids = []
    if head_kids or r.random() < 0.5:
      kids.append(X("head", [], head_kids))
    if r.random() < 0.95:
      at = (self.interval() if r.random() < 0.2 else []) + self.style_attrs(BLOCK_STYLES, r.choice([0, 0, 1, 2])) + self.refs() + self.region_ref(0.3)
      if r.random() < 0.1:
        at.append(("timeContainer", r.choice(["par", "seq"])))
      bk = [self.div() for _ in range(r.choice([0, 1, 1, 1, 2]))]
      if r.random() < 0.05:
        bk.insert(0, self.set_elem(BLOCK_STYLES))
      kids.append(X("body", at, bk))
    return X("tt", root_at, kids)


def gen_ttml(r):
  return _TtmlGen(r).document()


# ---------------------------------------------------------------------------------------------------------------------
# SubRip

SRT_WORDS = ["Hello", "world", "- Hi!", "naïve", "日本語", "1 < 2", "a & b", "...", "♪", "it's", "\"q\"", "x", "I", "{\\an8}", "100%"]
SRT_TAGS = [("<b>", "</b>"), ("<i>", "</i>"), ("<u>", "</u>"), ("<font color=\"red\">", "</font>"), ("<font color=\"#00FF00\">", "</font>"),
            ("<font color=\"#ff000080\">", "</font>"), ("{b}", "{/b}"), ("{i}", "{/i}"), ("{u}", "{/u}"), ("<bold>", "</bold>"),
            ("<italic>", "</italic>"), ("<underline>", "</underline>"), ("{bold}", "{/bold}"), ("<B>", "</B>"), ("<I>", "</i>"),
            ("<font face=\"Arial\" size=\"12\" color=\"yellow\">", "</font>"), ("<font color=white>", "</font>"), ("<font color='blue'>", "</font>")]


def _srt_label(ms, sep=","):
  return f"{ms // 3600000:02d}:{ms // 60000 % 60:02d}:{ms // 1000 % 60:02d}{sep}{ms % 1000:03d}"


def _tagged_text(r, words, tags, depth=0):
  out = []
  for _ in range(r.choice([1, 1, 2, 3])):
    if depth < 3 and r.random() < 0.35:
      o, c = r.choice(tags)
      out.append(o + _tagged_text(r, words, tags, depth + 1) + c)
    else:
      out.append(r.choice(words))
  return r.choice([" ", " ", ""]).join(out)


def gen_srt(r):
  eol = r.choice(["\n", "\n", "\r\n"])
  t = r.choice([0, 0, 500, 1000, 59999, 3599000, 360000000 - 5000])
  blocks = []
  n = r.choice([0, 1, 1, 2, 3, 4, 6])
  for i in range(n):
    dur = r.choice([1, 1, 2, 40, 500, 999, 1000, 1001, 2500, 60000])
    b, e = t, t + dur
    t = e + r.choice([0, 0, 1, 80, 1000, 3600000])
    lines = []
    k = r.random()
    if k < 0.12:
      pass                                          # a cue without text (seen in the wild; players show nothing)
    elif k < 0.2:
      lines = [r.choice(SRT_WORDS) + r.choice(["</b>", "</i>", "</font>", "{/b}", "</u></u>"]) + r.choice(SRT_WORDS)]      # end tag without start tag
    else:
      lines = [_tagged_text(r, SRT_WORDS, SRT_TAGS) for _ in range(r.choice([1, 1, 2, 3]))]
    arrow = r.choice([" --> ", " --> ", "  -->  ", "\t-->\t"])
    timing = _srt_label(b) + arrow + _srt_label(e)
    if r.random() < 0.1:
      timing += "  X1:100 X2:200 Y1:100 Y2:200"
    counter = str(i + 1) if r.random() < 0.9 else r.choice(["0", "007", str(10 ** 12), "1"])
    blocks.append(eol.join([counter, timing] + lines) + eol)
  text = ("\ufeff" if r.random() < 0.08 else "") + (eol * r.choice([1, 1, 1, 2, 3])).join(blocks)
  if blocks and r.random() < 0.6:
    text += eol * r.choice([1, 2])
  if text.endswith(eol) and r.random() < 0.25:
    text = text[:-len(eol)]
  return text


# ---------------------------------------------------------------------------------------------------------------------
# WebVTT

VTT_WORDS = ["Hello", "world", "naïve", "日本語", "&amp;", "&lt;", "&gt;", "&nbsp;", "&lrm;", "&#65;", "&#x263A;", "it's", "a", "50%", "- x", "&bogus;",
             "♪"]
VTT_TAGS = [("<b>", "</b>"), ("<i>", "</i>"), ("<u>", "</u>"), ("<c>", "</c>"), ("<c.red>", "</c>"), ("<c.bg_blue.yellow>", "</c>"), ("<c.loud>", "</c>"),
            ("<v Fred>", "</v>"), ("<v.loud Mary Ann>", "</v>"), ("<lang en>", "</lang>"), ("<lang fr-CA>", "</lang>"), ("<b.x.y>", "</b>"),
            ("<i.foreignphrase>", "</i>")]
VTT_SETTINGS = ["vertical:rl", "vertical:lr", "line:0", "line:-1", "line:5", "line:10%", "line:50%,center", "line:100%,end", "line:-3,start",
                "position:10%", "position:50%,center", "position:100%,line-right", "position:0%,line-left", "size:50%", "size:100%", "size:0%",
                "align:start", "align:center", "align:end", "align:left", "align:right", "region:fred", "line:22", "line:0%", "position:33.3%"]


def _vtt_ts(ms, hours=None):
  h = ms // 3600000
  s = f"{ms // 60000 % 60:02d}:{ms // 1000 % 60:02d}.{ms % 1000:03d}"
  return f"{h:02d}:{s}" if (h or hours) else s


def _vtt_payload_line(r, begin, end, depth=0):
  out = []
  for _ in range(r.choice([1, 1, 2, 3])):
    k = r.random()
    if depth < 3 and k < 0.3:
      o, c = r.choice(VTT_TAGS)
      out.append(o + _vtt_payload_line(r, begin, end, depth + 1) + (c if r.random() < 0.9 else ""))          # end tags are optional at the end
    elif depth == 0 and k < 0.4:
      out.append("<ruby>" + r.choice(["漢", "base", "a b"]) + "<rt>" + r.choice(["かん", "rt"]) + r.choice(["</rt>", ""]) + r.choice(["", "b2<rt>t2</rt>"]) + "</ruby>")
    elif k < 0.5 and end - begin > 2:
      out.append(f"<{_vtt_ts(r.randrange(begin + 1, end), r.random() < 0.3)}>" + r.choice(VTT_WORDS))
    elif k < 0.55:
      out.append(r.choice(["</b>", "</i>", "</c>", "</v>", "</ruby>", "</rt>", "</>", "</b></b>"]))          # ignored by the cue text parsing rules
    else:
      out.append(r.choice(VTT_WORDS))
  return r.choice([" ", " ", ""]).join(out)


def gen_vtt(r):
  eol = r.choice(["\n", "\n", "\n", "\r\n", "\r"])
  text = ("\ufeff" if r.random() < 0.08 else "") + r.choice(["WEBVTT", "WEBVTT", "WEBVTT - title", "WEBVTT\tx", "WEBVTT "]) + eol
  if r.random() < 0.1:
    text += "Kind: captions" + eol + "Language: en" + eol
  blocks = []
  for _ in range(r.choice([0, 0, 1, 2])):
    blocks.append(r.choice([
      ["NOTE a comment"], ["NOTE", "multi", "line"], ["STYLE", "::cue { color: lime }"], ["STYLE", "::cue(b) {", "  color: red", "}"],
      ["REGION", "id:fred", "width:40%", "lines:3", "regionanchor:0%,100%", "viewportanchor:10%,90%", "scroll:up"], ["NOTE"]]))
  t = r.choice([0, 0, 500, 59999, 3599000, 360000000])
  for i in range(r.choice([0, 1, 1, 2, 3, 4])):
    dur = r.choice([1, 2, 40, 500, 1000, 2500, 60000])
    b, e = t, t + dur
    t = e + r.choice([0, 0, 1, 1000, 100000])
    lines = []
    if r.random() < 0.45:
      lines.append(r.choice(["1", "42", "cue-1", "a b c", "été", "NOTEBOOK", "STYLE-1", "NOTE 7", "-", "id with - > arrow"]))
    hours = r.random() < 0.4
    timing = _vtt_ts(b, hours) + r.choice([" --> ", " --> ", "\t-->\t", "  -->  "]) + _vtt_ts(e, hours)
    for s in r.sample(VTT_SETTINGS, r.choice([0, 0, 1, 2, 3])):
      timing += r.choice([" ", "\t"]) + s
    lines.append(timing)
    if r.random() >= 0.1:                             # else: a cue with an empty payload
      lines += [_vtt_payload_line(r, b, e) for _ in range(r.choice([1, 1, 2, 3]))]
    blocks.append(lines)
    if r.random() < 0.15:
      blocks.append(["NOTE between cues"])
  for b in blocks:
    text += eol * r.choice([1, 1, 1, 2]) + eol.join(b) + eol
  k = r.random()
  if k < 0.25 and text.endswith(eol):
    text = text[:-len(eol)]
  elif k < 0.4:
    text += eol
  return text


# ---------------------------------------------------------------------------------------------------------------------
# Scenarist SCC (CEA-608 words, odd parity, field 1)

def _parity(b):
  return b | 0x80 if bin(b & 0x7F).count("1") % 2 == 0 else b & 0x7F


def scc_word(b1, b2):
  return f"{_parity(b1):02x}{_parity(b2):02x}"


_ROW = {1: (0x11, 0x40), 2: (0x11, 0x60), 3: (0x12, 0x40), 4: (0x12, 0x60), 5: (0x15, 0x40), 6: (0x15, 0x60), 7: (0x16, 0x40), 8: (0x16, 0x60),
        9: (0x17, 0x40), 10: (0x17, 0x60), 11: (0x10, 0x40), 12: (0x13, 0x40), 13: (0x13, 0x60), 14: (0x14, 0x40), 15: (0x14, 0x60)}
_CTRL = {"RCL": 0x20, "BS": 0x21, "AOF": 0x22, "AON": 0x23, "DER": 0x24, "RU2": 0x25, "RU3": 0x26, "RU4": 0x27, "FON": 0x28, "RDC": 0x29,
         "TR": 0x2A, "RTD": 0x2B, "EDM": 0x2C, "CR": 0x2D, "ENM": 0x2E, "EOC": 0x2F}


def _ctrl(name, ch=0, twice=True):
  w = scc_word(0x14 | (ch << 3), _CTRL[name])
  return [w, w] if twice else [w]


def _pac(r, row=None, ch=0):
  row = row or r.randrange(1, 16)
  b1, b2 = _ROW[row]
  b2 |= r.choice([0, 0, 1]) | (r.randrange(0, 16) << 1)         # underline bit, colour/italics/indent
  w = scc_word(b1 | (ch << 3), b2)
  return [w, w] if r.random() < 0.8 else [w]


def _chars(r, s):
  bs = [ord(c) for c in s]
  if len(bs) % 2:
    bs.append(0x00 if r.random() < 0.5 else 0x20)
  return [scc_word(bs[i], bs[i + 1]) for i in range(0, len(bs), 2)]


def _scc_text(r, ch=0):
  out = []
  for _ in range(r.choice([1, 1, 2, 3])):
    k = r.random()
    if k < 0.55:
      out += _chars(r, r.choice(["HELLO", "Hi there", "a", "OK.", "[music]", "* \\ ^ _ ` { | } ~", "12:30", "WORLD ", "  x"]))
    elif k < 0.65:
      w = scc_word(0x11 | (ch << 3), 0x20 + r.randrange(0, 16))              # mid-row code
      out += [w, w]
    elif k < 0.75:
      out += _chars(r, "A")[:1] + [scc_word(0x11 | (ch << 3), 0x30 + r.randrange(0, 16))] * 2      # special character
    elif k < 0.85:
      out += _chars(r, "E")[:1] + [scc_word(r.choice([0x12, 0x13]) | (ch << 3), 0x20 + r.randrange(0, 32))] * 2      # extended character (replaces the previous one)
    elif k < 0.9:
      out += [scc_word(0x17 | (ch << 3), 0x21 + r.randrange(0, 3))] * 2       # tab offset
    elif k < 0.95:
      out += _ctrl("BS", ch)
    else:
      out += [scc_word(0x10 | (ch << 3), 0x20 + r.randrange(0, 16))] * 2      # background attribute
  return out


def _scc_tc(frames, drop):
  f = frames % 30
  s = frames // 30
  return f"{s // 3600 % 24:02d}:{s // 60 % 60:02d}:{s % 60:02d}{';' if drop else ':'}{f:02d}"


def gen_scc(r):
  drop = r.random() < 0.3
  eol = r.choice(["\n", "\n", "\r\n"])
  t = r.choice([0, 30, 3600 * 30, 1799, 17982, r.randrange(0, 24 * 3600 * 30 - 20000)])
  lines = []
  style = r.choice(["pop", "pop", "roll", "paint", "mixed"])
  for i in range(r.choice([0, 1, 2, 3, 5])):
    st = r.choice(["pop", "roll", "paint"]) if style == "mixed" else style
    ch = 1 if r.random() < 0.1 else 0
    words = []
    if st == "pop":
      words += _ctrl("ENM", ch) if r.random() < 0.6 else []
      words += _ctrl("RCL", ch)
      for _ in range(r.choice([1, 1, 2, 3])):
        words += _pac(r, ch=ch) + _scc_text(r, ch)
      if r.random() < 0.85:
        words += _ctrl("EDM", ch) if r.random() < 0.5 else []
        words += _ctrl("EOC", ch)
    elif st == "roll":
      words += _ctrl(r.choice(["RU2", "RU3", "RU4"]), ch) + _ctrl("CR", ch)
      words += _pac(r, row=r.choice([15, 15, 14, 4, 1]), ch=ch) + _scc_text(r, ch)
    else:
      words += _ctrl("RDC", ch)
      for _ in range(r.choice([1, 2])):
        words += _pac(r, ch=ch) + _scc_text(r, ch)
      if r.random() < 0.3:
        words += _ctrl("DER", ch)
    if r.random() < 0.1:
      words += _ctrl(r.choice(["TR", "RTD", "AOF", "AON", "FON"]), ch)
    lines.append(_scc_tc(t, drop) + "\t" + " ".join(words))
    t += len(words) + r.choice([0, 1, 15, 60, 300])
    if r.random() < 0.5:
      lines.append(_scc_tc(t, drop) + "\t" + " ".join(_ctrl("EDM", ch)))
      t += r.choice([2, 30, 90])
  header = r.choice(["Scenarist_SCC V1.0", "Scenarist_SCC V1.0", "Scenarist_SCC V1.0 "])
  body = (eol + eol).join(lines)
  return header + eol + eol + body + (eol if r.random() < 0.8 else "")


# ---------------------------------------------------------------------------------------------------------------------
# EBU STL (Tech 3264)

GSI_FIELDS = [  # name, offset, length
  ("CPN", 0, 3), ("DFC", 3, 8), ("DSC", 11, 1), ("CCT", 12, 2), ("LC", 14, 2), ("OPT", 16, 32), ("OET", 48, 32), ("TPT", 80, 32), ("TET", 112, 32),
  ("TN", 144, 32), ("TCD", 176, 32), ("SLR", 208, 16), ("CD", 224, 6), ("RD", 230, 6), ("RN", 236, 2), ("TNB", 238, 5), ("TNS", 243, 5),
  ("TNG", 248, 3), ("MNC", 251, 2), ("MNR", 253, 2), ("TCS", 255, 1), ("TCP", 256, 8), ("TCF", 264, 8), ("TND", 272, 1), ("DSN", 273, 1),
  ("CO", 274, 3), ("PUB", 277, 32), ("EN", 309, 32), ("ECD", 341, 32), ("SPARE", 373, 75), ("UDA", 448, 576)]
TTI_FIELDS = [("SGN", 0, 1), ("SN", 1, 2), ("EBN", 3, 1), ("CS", 4, 1), ("TCI", 5, 4), ("TCO", 9, 4), ("VP", 13, 1), ("JC", 14, 1), ("CF", 15, 1),
              ("TF", 16, 112)]
GSI_BOUNDARY = {
  "CPN": [b"850", b"437", b"860", b"863", b"865", b"000", b"   ", b"\xff\xff\xff"],
  "DFC": [b"STL25.01", b"STL30.01", b"STL24.01", b"STL50.01", b"STL60.01", b"STL00.01", b"STL29.97", b"        ", b"stl25.01", b"STL25.02"],
  "DSC": [b"0", b"1", b"2", b" ", b"3", b"\x00", b"9"],
  "CCT": [b"00", b"01", b"02", b"03", b"04", b"05", b"  ", b"99", b"\x00\x00", b"0A"],
  "LC": [b"09", b"00", b"0A", b"7F", b"  ", b"ZZ", b"FF"],
  "TNB": [b"00000", b"00001", b"99999", b"     ", b"-0001", b"0000A", b"\x00" * 5],
  "TNS": [b"00000", b"00001", b"99999", b"     ", b"abcde"],
  "TNG": [b"001", b"000", b"   ", b"255"],
  "MNC": [b"40", b"00", b"  ", b"99", b"xx"],
  "MNR": [b"23", b"11", b"00", b"01", b"02", b"99", b"  ", b"xx", b"-1"],
  "TCS": [b"0", b"1", b" ", b"2"],
  "TCP": [b"00000000", b"10000000", b"23595924", b"99999999", b"        ", b"0000000A", b"00006000", b"00000025", b"00000030", b"\x00" * 8],
  "TCF": [b"00000000", b"10000000", b"        ", b"99999999"],
  "TND": [b"1", b"0", b" "],
  "DSN": [b"1", b"0", b" "],
  "CO": [b"FRA", b"   ", b"\x00\x00\x00"],
}
STL_TEXT = [b"Hello", b"world", b"\xc2e", b"caf\xc2e", b"\xc8u", b"A\x8aB", b"\x80it\x81", b"\x82u\x83", b"\x84box\x85", b"\x07yellow", b"\x01\x1dred bg",
            b"\x0b\x0bStart\x0a\x0a", b"\x0ddouble", b"1 < 2", b"\xa4", b"\xe0\xf0", b"\x20\x20", b"\x1c\x07", b"\x00", b"\x1f", b"\x7f", b"\x86\x9f", b"\xff"]


def gsi_block(r=None, **over):
  g = bytearray(b" " * 1024)
  vals = {"CPN": b"850", "DFC": b"STL25.01", "DSC": b"1", "CCT": b"00", "LC": b"09", "OPT": b"Title", "CD": b"200101", "RD": b"200101", "RN": b"00",
          "TNB": b"00001", "TNS": b"00001", "TNG": b"001", "MNC": b"40", "MNR": b"23", "TCS": b"1", "TCP": b"00000000", "TCF": b"00000000", "TND": b"1",
          "DSN": b"1", "CO": b"FRA"}
  vals.update(over)
  for name, off, ln in GSI_FIELDS:
    if name in vals:
      v = vals[name][:ln]
      g[off:off + len(v)] = v
  return bytes(g)


def bcd_tc(frames, rate):
  f = frames % rate
  s = frames // rate
  return bytes([s // 3600 % 24, s // 60 % 60, s % 60, f])


def tti_block(sgn=0, sn=0, ebn=0xFF, cs=0, tci=b"\0\0\0\0", tco=b"\0\0\1\0", vp=20, jc=2, cf=0, tf=b""):
  tf = tf[:112]
  return bytes([sgn & 0xFF]) + (sn & 0xFFFF).to_bytes(2, "little") + bytes([ebn & 0xFF, cs & 0xFF]) + tci + tco + bytes([vp & 0xFF, jc & 0xFF, cf & 0xFF]) \
    + tf + b"\x8f" * (112 - len(tf))


def gen_stl(r):
  dfc = r.choice([b"STL25.01", b"STL25.01", b"STL30.01", b"STL24.01", b"STL50.01"])
  rate = int(dfc[3:5])
  dsc = r.choice([b"0", b"1", b"1", b"2", b" "])
  cct = r.choice([b"00", b"00", b"01", b"02", b"03", b"04"])
  start = r.choice([0, 0, 10 * 3600 * rate, 3600 * rate])
  blocks = []
  t = start + r.choice([0, 0, rate, 10 * rate])
  sn = r.choice([0, 0, 1, 255, 300])
  for _ in range(r.choice([0, 1, 1, 2, 3, 4])):
    dur = r.choice([1, 2, rate, 2 * rate, 5 * rate])
    parts = []
    for _ in range(r.choice([1, 1, 2, 3])):
      parts.append(r.choice(STL_TEXT))
    tf = r.choice([b" ", b" ", b"\x8a", b"\x8a\x8a", b""]).join(parts)
    cs = r.choice([0, 0, 0, 1, 2, 3])
    cf = 1 if r.random() < 0.08 else 0
    vp = r.choice([0, 1, 2, 11, 20, 22, 23, 12, 99]) if dsc in (b"1", b"2") else r.choice([0, 1, 50, 99])
    jc = r.choice([0, 1, 2, 3])
    tci, tco = bcd_tc(t, rate), bcd_tc(t + dur, rate)
    if len(tf) > 112 or r.random() < 0.1:
      half = len(tf) // 2
      blocks.append(tti_block(0, sn, 0x00, cs, tci, tco, vp, jc, cf, tf[:half][:112]))          # extension block chain
      blocks.append(tti_block(0, sn, 0xFF, cs, tci, tco, vp, jc, cf, tf[half:][:112]))
    else:
      blocks.append(tti_block(r.choice([0, 0, 1]), sn, 0xFF, cs, tci, tco, vp, jc, cf, tf))
    if r.random() < 0.06:
      blocks.append(tti_block(0, sn, 0xFE, cs, tci, tco, vp, jc, cf, b"user data"))             # EBN FE: user data block
    sn = (sn + 1) & 0xFFFF
    t += dur + r.choice([0, 0, 1, rate])
  tcp = b"%02d%02d%02d%02d" % tuple(bcd_tc(start, rate))
  mnr = r.choice([b"23", b"23", b"11", b"02", b"99"]) if dsc in (b"1", b"2") else r.choice([b"99", b"23", b"  "])
  gsi = gsi_block(DFC=dfc, DSC=dsc, CCT=cct, TCP=tcp, MNR=mnr, TNB=b"%05d" % len(blocks), TNS=b"%05d" % len(blocks),
                  LC=r.choice([b"09", b"0A", b"08", b"  "]), CPN=r.choice([b"850", b"437", b"860", b"863", b"865"]))
  return gsi + b"".join(blocks)
