"""Independent oracle for ISD construction (C01, C02, C13, C14): TTML2 time containment (section 12), [associate region]
(11.3.1.3), ISD construction / pruning (11.3.1), xml:space handling -- written from the specifications and the property
statements, not from ttconv/isd.py.  It reads a ttconv.model document through the public getters only.

Result of `snapshot(doc, t)`: {region id: node} with node = (kind, id, children) for elements and ("Text", text) for text.
"""
import re
from fractions import Fraction

import ttconv.model as m
import ttconv.style_properties as sp

SP = sp.StyleProperties
INF = None   # None stands for "indefinite" on ends


def interval(e_begin, e_end, parent_begin, parent_end):
  """absolute active interval of an element with offsets (e_begin, e_end) in a parent active over [parent_begin, parent_end)"""
  pb = parent_begin if parent_begin is not None else Fraction(0)
  b = pb + (e_begin if e_begin is not None else 0)
  if e_end is None:
    en = parent_end
  else:
    en = pb + e_end
    if parent_end is not None and parent_end < en:
      en = parent_end
  return b, en


def active(iv, t):
  b, en = iv
  return b <= t and (en is None or t < en)


def resolved(doc, e, iv, prop, t):
  """the value of a non-inherited style property after animation / specified / initial-element / default"""
  val = None
  for st in e.iter_animation_steps():
    if st.style_property is prop and active(interval(st.begin, st.end, iv[0], iv[1]), t):
      val = st.value      # later steps in document order win
  if val is not None:
    return val
  if e.has_style(prop):
    return e.get_style(prop)
  if doc.has_initial_value(prop):
    return doc.get_initial_value(prop)
  return prop.make_initial_value()


_LWSP = re.compile(r"[\t\r\n ]+")


def kind(e):
  return type(e).__name__


def _has_text(node):
  return node[0] in ("Text", "Br") or (node[0] != "Text" and any(_has_text(k) for k in node[2]))


class Snap:
  def __init__(self, doc, t):
    self.doc = doc
    self.t = t
    self.has_regions = len(list(doc.iter_regions())) > 0
    self.ruby_pattern_broken = False

  def element(self, e, sel, inherited, parent_iv):
    """-> node or None"""
    doc, t = self.doc, self.t
    leaf = isinstance(e, (m.Br, m.Text))
    iv = parent_iv if leaf else interval(e.get_begin(), e.get_end(), parent_iv[0], parent_iv[1])
    if not active(iv, t):
      return None
    own = None if leaf else e.get_region()
    assoc = own if own is not None else inherited
    if assoc is not None:
      if assoc is not sel:
        return None
    elif self.has_regions:
      # no region from the element or its ancestors: kept only as a container of descendants that are associated with `sel`
      if not e.has_children():
        return None
    if isinstance(e, m.Text):
      return ("Text", e.get_text(), e)
    if isinstance(e, m.Br):
      # a br is an anonymous span around a line separator: tts:display (specified or set by animation) removes it like any span
      if resolved(doc, e, iv, SP.Display, t) is sp.DisplayType.none:
        return None
      return ("Br", e.get_id(), [], e)
    if resolved(doc, e, iv, SP.Display, t) is sp.DisplayType.none:
      return None
    kids = []
    for c in e:
      n = self.element(c, sel, assoc, iv)
      if n is not None:
        kids.append(n)
    node = (kind(e), e.get_id(), kids, e)
    if isinstance(e, (m.P, m.Rt, m.Rtc)):
      lwsp(node)
      prune_spans(node)
    if isinstance(e, m.Ruby) and kids:
      ks = [k[0] for k in kids]
      if ks not in (["Rb", "Rt"], ["Rb", "Rp", "Rt", "Rp"], ["Rbc", "Rtc"], ["Rbc", "Rtc", "Rtc"]):
        self.ruby_pattern_broken = True
    if isinstance(e, m.Rtc) and kids:
      ks = [k[0] for k in kids]
      core = ks[1:-1] if len(ks) > 2 and ks[0] == "Rp" and ks[-1] == "Rp" else ks
      if not all(k == "Rt" for k in core):
        self.ruby_pattern_broken = True
    if isinstance(e, (m.Ruby, m.Rtc)) and not _has_text(node):
      return None          # a ruby container none of whose parts has anything to present (text, line break) is not presented
    if isinstance(e, (m.Rb, m.Rbc)):
      return node          # ruby bases are kept even when empty (either reading is accepted by the comparison)
    return node if node[2] else None

  def region(self, r):
    doc, t = self.doc, self.t
    iv = interval(r.get_begin(), r.get_end(), Fraction(0), None)
    if not active(iv, t):
      return None
    if resolved(doc, r, iv, SP.Display, t) is sp.DisplayType.none:
      return None
    kids = []
    body = doc.get_body()
    if body is not None:
      n = self.element(body, r, None, (Fraction(0), None))
      if n is not None:
        kids.append(n)
    if kids or resolved(doc, r, iv, SP.ShowBackground, t) is sp.ShowBackgroundType.always:
      return ("Region", r.get_id(), kids, r)
    return None

  def default_region(self):
    doc = self.doc
    kids = []
    body = doc.get_body()
    if body is not None:
      n = self.element(body, None, None, (Fraction(0), None))
      if n is not None:
        kids.append(n)
    show = doc.get_initial_value(SP.ShowBackground) if doc.has_initial_value(SP.ShowBackground) else sp.ShowBackgroundType.always
    disp = doc.get_initial_value(SP.Display) if doc.has_initial_value(SP.Display) else sp.DisplayType.auto
    if disp is sp.DisplayType.none:
      return None
    if kids or show is sp.ShowBackgroundType.always:
      return ("Region", "default_region", kids, None)
    return None


def text_leaves(node, out, top=True):
  """text and br nodes of a line area in document order; ruby text (rt, rtc, rp) forms its own line areas"""
  for c in node[2]:
    if c[0] == "Text":
      out.append((c, node))
    elif c[0] == "Br":
      out.append((c, node))
    elif c[0] in ("Rt", "Rtc", "Rp"):
      continue
    else:
      text_leaves(c, out, False)


def lwsp(node):
  """xml:space handling over the flattened text of a paragraph-like node (in place: Text tuples are replaced)"""
  leaves = []
  text_leaves(node, leaves)
  # work on mutable records
  recs = []
  for leaf, parent in leaves:
    if leaf[0] == "Br":
      recs.append({"br": True})
    else:
      preserve = parent[3].get_space() is m.WhiteSpaceHandling.PRESERVE
      recs.append({"br": False, "text": leaf[1], "preserve": preserve, "leaf": leaf, "parent": parent})
  # collapse
  for r in recs:
    if not r["br"] and not r["preserve"]:
      r["text"] = _LWSP.sub(" ", r["text"])
  # leading spaces: at the start of a line, or after white space
  prev = None
  for r in recs:
    if r["br"]:
      prev = "\n"
      continue
    if not r["text"]:
      continue
    if not r["preserve"] and r["text"][0] == " " and (prev is None or prev in " \t\r\n"):
      r["text"] = r["text"][1:]
    if r["text"]:
      prev = r["text"][-1]
  # trailing spaces: at the end of a line
  nxt = None
  for r in reversed(recs):
    if r["br"]:
      nxt = "\n"
      continue
    if not r["text"]:
      continue
    if not r["preserve"] and r["text"][-1] == " " and (nxt is None or nxt in "\r\n"):
      r["text"] = r["text"][:-1]
    if r["text"]:
      nxt = r["text"][0]
  for r in recs:
    if not r["br"]:
      p = r["parent"]
      i = next(k for k, c in enumerate(p[2]) if c is r["leaf"])
      p[2][i] = ("Text", r["text"], r["leaf"][2])


def prune_spans(node):
  keep = []
  for c in node[2]:
    if c[0] == "Text":
      if c[1]:
        keep.append(c)
      continue
    prune_spans(c)
    if c[0] == "Span" and not c[2]:
      continue
    keep.append(c)
  node[2][:] = keep


def snapshot(doc, t):
  """-> ({region id: node}, flags)"""
  s = Snap(doc, t)
  out = {}
  regions = list(doc.iter_regions())
  if regions:
    for r in regions:
      n = s.region(r)
      if n is not None:
        out[r.get_id()] = n
  else:
    n = s.default_region()
    if n is not None:
      out["default_region"] = n
  return out, {"ruby_pattern_broken": s.ruby_pattern_broken}


def strip(node):
  """drop the back-references to source elements"""
  if node[0] == "Text":
    return ("Text", node[1])
  return (node[0], node[1], [strip(c) for c in node[2]])


def change_times(doc, kinds=False):
  """every instant at which the presentation may change: begins/ends of all elements and of all animation steps (steps are
  children of the element they animate: relative to its begin, clipped by its end).
  kinds=True -> {time: set of "element" / "animation"}"""
  out = {}

  def add(t, k):
    out.setdefault(t, set()).add(k)

  def rec(e, parent_iv):
    leaf = isinstance(e, (m.Br, m.Text))
    iv = parent_iv if leaf else interval(e.get_begin(), e.get_end(), parent_iv[0], parent_iv[1])
    add(iv[0], "element")
    if iv[1] is not None:
      add(iv[1], "element")
    for st in e.iter_animation_steps():
      siv = interval(st.begin, st.end, iv[0], iv[1])
      add(siv[0], "animation")
      if siv[1] is not None:
        add(siv[1], "animation")
    for c in e:
      rec(c, iv)

  for r in doc.iter_regions():
    rec(r, (Fraction(0), None))
  if doc.get_body() is not None:
    rec(doc.get_body(), (Fraction(0), None))
  return out if kinds else sorted(out)
