"""Word streams (concrete) for the proof tier of C08's time clause, and the clauses themselves, written once so that the proof
(symbolic labels, contracts/c08_proofs.py) and the native replay (replayers/c08.py:times) evaluate the same text.

A shape: `lines` = the words of each SCC line; `texts` = characters of every paragraph of the document in document order (rows
separated by one "\\n" per row step); `events` = (paragraph index, "begin"|"end", line index, lo, hi): the change is triggered by the
word at position hi of that line (0-based, every word sent counts); lo < hi only for roll-up / paint-on rows, which are written
into the displayed memory and may be shown from the head of the burst (position lo) on (contracts/c08.py ASSUMPTIONS);
lo == hi: strict (pop-on flip, erase, roll)."""
import math
from fractions import Fraction

RATES = {"ndf": Fraction(30), "df": Fraction(30000, 1001)}

SHAPES = {
  # RCL ENM PAC15 `HELLO!` EOC | RCL ENM PAC13 `BYE.` EOC | RCL ENM EOC (an empty caption replaces the second)
  "pop-on": dict(
    lines=["9420 94ae 9470 c8c5 4c4c 4fa1 942f", "9420 94ae 1370 c2d9 c52e 942f", "9420 94ae 942f"],
    texts=["HELLO!", "BYE."],
    events=[(0, "begin", 0, 6, 6), (0, "end", 1, 5, 5), (1, "begin", 1, 5, 5), (1, "end", 2, 2, 2)]),
  # no ENM: every EOC swaps the two memories, the third flip brings the first caption back
  "pop-on-swap": dict(
    lines=["9420 9470 c8c5 4c4c 4fa1 942f", "9420 1370 c2d9 c52e 942f", "9420 942f"],
    texts=["HELLO!", "BYE.", "HELLO!"],
    events=[(0, "begin", 0, 5, 5), (0, "end", 1, 4, 4), (1, "begin", 1, 4, 4), (1, "end", 2, 1, 1), (2, "begin", 2, 1, 1)]),
  # two rows (13 and 15), null padding and channel-2 words in between
  "pop-on-2rows-padding-ch2": dict(
    lines=["9420 94ae 1370 c1c2 8080 1c20 9470 c3c4 8080 942f", "8080 9420 94ae 9470 c580 942f"],
    texts=["AB\n\nCD", "E"],
    events=[(0, "begin", 0, 9, 9), (0, "end", 1, 5, 5), (1, "begin", 1, 5, 5)]),
  # RU2 CR PAC15 `AB` | CR `CD` | CR `ED`
  "roll-up": dict(
    lines=["9425 94ad 9470 c1c2", "94ad c3c4", "94ad c5c4"],
    texts=["AB", "AB\nCD", "CD\nED"],
    events=[(0, "begin", 0, 0, 3), (0, "end", 1, 0, 0), (1, "begin", 1, 0, 1), (1, "end", 2, 0, 0), (2, "begin", 2, 0, 1)]),
  # RDC PAC15 `AB` `CD` | RDC PAC13 `ED`
  "paint-on": dict(
    lines=["9429 9470 c1c2 c3c4", "9429 1370 c5c4"],
    texts=["ABCD", "ED\n\nABCD"],
    events=[(0, "begin", 0, 0, 2), (0, "end", 1, 0, 2), (1, "begin", 1, 0, 2)]),
  # RCL ENM PAC14+indent4 `AB` italics `CD` TO2 `a` extended-A-acute (replaces the a) EOC | RCL ENM EOC
  "pop-on-midrow-tab-ext": dict(
    lines=["9420 94ae 9452 c1c2 91ae 43c4 97a2 6180 9220 942f", "9420 94ae 942f"],
    texts=["AB CD  \u00c1"],
    events=[(0, "begin", 0, 9, 9), (0, "end", 1, 2, 2)]),
  # four rows 12..15
  "pop-on-4rows": dict(
    lines=["9420 94ae 1340 5231 13e0 5232 9440 52b3 94e0 5234 942f", "9420 94ae 942f"],
    texts=["R1\nR2\nR3\nR4"],
    events=[(0, "begin", 0, 10, 10), (0, "end", 1, 2, 2)]),
  # `AB` `X` backspace `CD`
  "pop-on-backspace": dict(
    lines=["9420 94ae 94e0 c1c2 5880 94a1 43c4 942f", "9420 94ae 942f"],
    texts=["ABCD"],
    events=[(0, "begin", 0, 7, 7), (0, "end", 1, 2, 2)]),
  # RU3 CR PAC15 `L1` | CR `L2` | CR `L3` | CR `L4` (the window of three rows scrolls L1 out)
  "roll-up-3": dict(
    lines=["9426 94ad 94e0 4c31", "94ad 4c32", "94ad 4cb3", "94ad 4c34"],
    texts=["L1", "L1\nL2", "L1\nL2\nL3", "L2\nL3\nL4"],
    events=[(0, "begin", 0, 0, 3), (0, "end", 1, 0, 0), (1, "begin", 1, 0, 1), (1, "end", 2, 0, 0), (2, "begin", 2, 0, 1), (2, "end", 3, 0, 0),
            (3, "begin", 3, 0, 1)]),
  # RDC PAC14 `AB` PAC15 `CD` | RDC PAC13 `EF`
  "paint-on-2": dict(
    lines=["9429 9440 c1c2 94e0 43c4", "9429 13e0 4546"],
    texts=["AB", "AB\nCD", "EF\nAB\nCD"],
    events=[(0, "begin", 0, 0, 2), (0, "end", 0, 3, 4), (1, "begin", 0, 3, 4), (1, "end", 1, 0, 2), (2, "begin", 1, 0, 2)]),
  # the two known findings about time, as separate harnesses
  "pop-on-doubled": dict(
    lines=["9420 9420 94ae 94ae 9470 9470 c1c2 942f 942f", "9420 9420 94ae 94ae 942f 942f"],
    texts=["AB"],
    events=[(0, "begin", 0, 7, 7), (0, "end", 1, 4, 4)]),
  "pop-on-edm": dict(
    lines=["9420 94ae 9470 c1c2 942f", "942c"],
    texts=["AB"],
    events=[(0, "begin", 0, 4, 4), (0, "end", 1, 0, 0)]),
}


def paragraphs(doc, model):
  return [e for e in doc.get_body().dfs_iterator() if isinstance(e, model.P)]


def text_of(p, model):
  out = []
  for e in p.dfs_iterator():
    if isinstance(e, model.Text):
      out.append(e.get_text())
    elif isinstance(e, model.Br):
      out.append("\n")
  return "".join(out)


def clauses(shape, kind, doc, counts, model, exact):
  """yields (obligation name, condition, note); `counts[i]` = SMPTE count of line i's label; `exact(v)`: v is an int or a Fraction"""
  spec, rate = SHAPES[shape], RATES[kind]
  ps = paragraphs(doc, model)
  yield "one-paragraph-per-screen-content", len(ps) == len(spec["texts"]), f"{len(ps)} paragraphs: {[text_of(p, model) for p in ps]!r}"
  for i, (p, want) in enumerate(zip(ps, spec["texts"])):
    yield f"p{i}.characters-and-row-order", text_of(p, model) == want, repr(text_of(p, model))
  strict = []
  for (pi, side, li, lo, hi) in spec["events"]:
    if pi >= len(ps):
      continue
    v = ps[pi].get_begin() if side == "begin" else ps[pi].get_end()
    tag = f"p{pi}.{side}"
    yield f"{tag}-is-set", v is not None, ""
    if v is None:
      continue
    yield f"{tag}-is-an-exact-rational(not-a-float)", exact(v), type(v).__name__
    n = v * rate
    k = math.floor(n)
    yield f"{tag}-is-an-exact-frame-multiple", n == k, ""
    yield f"{tag}-not-earlier-than-the-line's-time-code", k >= counts[li], ""
    d = k - counts[li]
    yield f"{tag}-within-the-transmission-window-of-the-triggering-word", (d >= lo) & (d <= hi + 1), ""
    if lo == hi:
      strict.append(d - hi)
  for a, b in zip(strict, strict[1:]):
    yield "same-latency-for-every-strict-event-of-the-document", a == b, ""
