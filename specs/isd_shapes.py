"""Document shapes for the proof tier of C01/C02 (shared by the contracts and the native replayers; no z3 import here).
Each shape builds real ttconv.model objects; `v(name)` supplies the value of a timing attribute (symbolic, concrete or None)."""
from fractions import Fraction

import ttconv.model as m
import ttconv.style_properties as sp

SP = sp.StyleProperties


def _ids():
  n = [0]

  def nid():
    n[0] += 1
    return f"e{n[0]}"
  return nid


def shape_nested(v):
  """no regions (default region): body > div > p > [span 'A', br, span 'B &--' > span '> C']"""
  nid = _ids()
  d = m.ContentDocument()
  body = m.Body(d); body.set_id(nid()); d.set_body(body)
  div = m.Div(d); div.set_id(nid()); body.push_child(div)
  p = m.P(d); p.set_id(nid()); div.push_child(p)
  s1 = m.Span(d); s1.set_id(nid()); p.push_child(s1); s1.push_child(m.Text(d, "A"))
  br = m.Br(d); br.set_id(nid()); p.push_child(br)
  s2 = m.Span(d); s2.set_id(nid()); p.push_child(s2); s2.push_child(m.Text(d, "B &--"))
  s3 = m.Span(d); s3.set_id(nid()); s2.push_child(s3); s3.push_child(m.Text(d, "> C"))      # `--` and `>` in ADJACENT text nodes
  body.set_begin(v("bb")); body.set_end(v("be"))
  div.set_begin(v("db")); div.set_end(v("de"))
  p.set_begin(v("pb")); p.set_end(v("pe"))
  s1.set_begin(v("s1b")); s1.set_end(v("s1e"))
  s3.set_begin(v("s3b")); s3.set_end(v("s3e"))
  return d


def shape_regions(v):
  """two timed regions; region references on div, p and span level; a container kept for a descendant's region"""
  nid = _ids()
  d = m.ContentDocument()
  r1 = m.Region("r1", d); r1.set_begin(v("r1b")); r1.set_end(v("r1e")); d.put_region(r1)
  r2 = m.Region("r2", d); r2.set_style(SP.ShowBackground, sp.ShowBackgroundType.whenActive); d.put_region(r2)
  r3 = m.Region("r3", d); r3.set_begin(v("r3b")); d.put_region(r3)      # empty region, showBackground always
  body = m.Body(d); body.set_id(nid()); d.set_body(body)
  div1 = m.Div(d); div1.set_id(nid()); div1.set_region(r1); body.push_child(div1)
  p1 = m.P(d); p1.set_id(nid()); p1.set_begin(v("p1b")); p1.set_end(v("p1e")); div1.push_child(p1)
  s1 = m.Span(d); s1.set_id(nid()); p1.push_child(s1); s1.push_child(m.Text(d, "one"))
  div2 = m.Div(d); div2.set_id(nid()); div2.set_begin(v("d2b")); div2.set_end(v("d2e")); body.push_child(div2)
  p2 = m.P(d); p2.set_id(nid()); p2.set_region(r2); div2.push_child(p2)
  s2 = m.Span(d); s2.set_id(nid()); p2.push_child(s2); s2.push_child(m.Text(d, "two"))
  p3 = m.P(d); p3.set_id(nid()); p3.set_region(r1); p3.set_end(v("p3e")); div2.push_child(p3)
  s3 = m.Span(d); s3.set_id(nid()); p3.push_child(s3); s3.push_child(m.Text(d, "three"))
  s4 = m.Span(d); s4.set_id(nid()); s4.set_region(r2); p3.push_child(s4); s4.push_child(m.Text(d, "other"))
  p4 = m.P(d); p4.set_id(nid()); div2.push_child(p4)                    # no region anywhere: never shown
  s5 = m.Span(d); s5.set_id(nid()); p4.push_child(s5); s5.push_child(m.Text(d, "none"))
  return d


def shape_display(v):
  """display=none by style, by initial value and by timed animation; xml:space"""
  nid = _ids()
  d = m.ContentDocument()
  r1 = m.Region("r1", d); d.put_region(r1)
  if v("rab") is not None or v("rae") is not None:
    r1.add_animation_step(m.DiscreteAnimationStep(SP.Display, v("rab"), v("rae"), sp.DisplayType.none))
  body = m.Body(d); body.set_id(nid()); body.set_region(r1); d.set_body(body)
  div = m.Div(d); div.set_id(nid()); body.push_child(div)
  p1 = m.P(d); p1.set_id(nid()); p1.set_begin(v("p1b")); p1.set_end(v("p1e")); div.push_child(p1)
  if v("ab") is not None or v("ae") is not None:
    p1.add_animation_step(m.DiscreteAnimationStep(SP.Display, v("ab"), v("ae"), sp.DisplayType.none))
  if v("a2b") is not None:
    p1.add_animation_step(m.DiscreteAnimationStep(SP.Display, v("a2b"), None, sp.DisplayType.auto))
  s1 = m.Span(d); s1.set_id(nid()); p1.push_child(s1); s1.push_child(m.Text(d, " a  b\u3000 "))       # U+3000 is not TTML white space: it stays, the blank after it is trimmed
  p2 = m.P(d); p2.set_id(nid()); p2.set_style(SP.Display, sp.DisplayType.none); div.push_child(p2)
  p2.add_animation_step(m.DiscreteAnimationStep(SP.Display, v("cb"), v("ce"), sp.DisplayType.auto))
  s2 = m.Span(d); s2.set_id(nid()); s2.set_space(m.WhiteSpaceHandling.PRESERVE); p2.push_child(s2); s2.push_child(m.Text(d, " x\u00a0 "))
  s3 = m.Span(d); s3.set_id(nid()); s3.set_begin(v("s3b")); p2.push_child(s3); s3.push_child(m.Text(d, "y"))
  return d


def shape_background(v):
  """region backgrounds decided by specified values, an <initial> value and animation, at instants outside the text content;
  open-ended content before bounded content"""
  nid = _ids()
  d = m.ContentDocument()
  d.put_initial_value(SP.BackgroundColor, sp.ColorType((0, 0, 255, 255)))
  r1 = m.Region("r1", d); d.put_region(r1)
  r1.set_style(SP.ShowBackground, sp.ShowBackgroundType.whenActive)
  r1.set_style(SP.BackgroundColor, sp.NamedColors.red.value)
  if v("sab") is not None or v("sae") is not None:
    r1.add_animation_step(m.DiscreteAnimationStep(SP.ShowBackground, v("sab"), v("sae"), sp.ShowBackgroundType.always))
  r2 = m.Region("r2", d); d.put_region(r2)          # background only from the <initial> value
  r2.set_begin(v("r2b")); r2.set_end(v("r2e"))
  r3 = m.Region("r3", d); d.put_region(r3)
  r3.set_style(SP.BackgroundColor, sp.ColorType((0, 0, 0, 0)))
  if v("gab") is not None or v("gae") is not None:
    r3.add_animation_step(m.DiscreteAnimationStep(SP.BackgroundColor, v("gab"), v("gae"), sp.NamedColors.green.value))
  if v("oab") is not None or v("oae") is not None:
    # a region without content whose red background is made visible ONLY by an animation of tts:opacity (0 specified, 1 for a while)
    r4 = m.Region("r4", d); d.put_region(r4)
    r4.set_style(SP.BackgroundColor, sp.NamedColors.red.value)
    r4.set_style(SP.Opacity, 0)
    r4.add_animation_step(m.DiscreteAnimationStep(SP.Opacity, v("oab"), v("oae"), 1))
  body = m.Body(d); body.set_id(nid()); d.set_body(body)
  div = m.Div(d); div.set_id(nid()); body.push_child(div)
  if v("oab") is not None or v("oae") is not None:
    from fractions import Fraction as F
    p4 = m.P(d); p4.set_id("p4"); p4.set_region(d.get_region("r4")); p4.set_begin(F(100)); p4.set_end(F(102)); div.push_child(p4)      # its only text, at a fixed late time
    s4 = m.Span(d); s4.set_id("s4"); p4.push_child(s4); s4.push_child(m.Text(d, "late"))
  p1 = m.P(d); p1.set_id(nid()); p1.set_region(r1); p1.set_begin(v("pb")); p1.set_end(v("pe")); div.push_child(p1)
  s1 = m.Span(d); s1.set_id(nid()); p1.push_child(s1); s1.push_child(m.Text(d, "one"))
  s1.set_style(SP.BackgroundColor, sp.NamedColors.transparent.value)      # the property's own default, SPECIFIED: it overrides the blue <initial> value
  p2 = m.P(d); p2.set_id(nid()); p2.set_region(r2); div.push_child(p2)
  s2 = m.Span(d); s2.set_id(nid()); p2.push_child(s2); s2.push_child(m.Text(d, "open"))
  s3 = m.Span(d); s3.set_id(nid()); s3.set_begin(v("s3b")); s3.set_end(v("s3e")); p2.push_child(s3); s3.push_child(m.Text(d, "bounded"))
  return d


def shape_ruby(v):
  """ruby containers (both forms) inside timed paragraphs; nested div with its own region; xml:space preserve on a span"""
  nid = _ids()
  d = m.ContentDocument()
  r1 = m.Region("r1", d); d.put_region(r1)
  r2 = m.Region("r2", d); r2.set_begin(v("r2b")); r2.set_end(v("r2e")); d.put_region(r2)
  body = m.Body(d); body.set_id(nid()); d.set_body(body)
  div = m.Div(d); div.set_id(nid()); div.set_region(r1); div.set_begin(v("db")); div.set_end(v("de")); body.push_child(div)
  p = m.P(d); p.set_id(nid()); p.set_begin(v("pb")); p.set_end(v("pe")); div.push_child(p)
  s0 = m.Span(d); s0.set_id(nid()); s0.set_space(m.WhiteSpaceHandling.PRESERVE); p.push_child(s0); s0.push_child(m.Text(d, " lead "))
  ruby = m.Ruby(d); ruby.set_id(nid()); ruby.set_begin(v("rub")); ruby.set_end(v("rue")); p.push_child(ruby)
  rb = m.Rb(d); rb.set_id(nid()); sb = m.Span(d); sb.set_id(nid()); sb.push_child(m.Text(d, "base")); rb.push_child(sb)
  rt = m.Rt(d); rt.set_id(nid()); st = m.Span(d); st.set_id(nid()); st.push_child(m.Text(d, " ann ")); rt.push_child(st)
  ruby.push_children([rb, rt])
  inner = m.Div(d); inner.set_id(nid()); inner.set_region(r2); body.push_child(inner)
  p2 = m.P(d); p2.set_id(nid()); p2.set_begin(v("p2b")); p2.set_end(v("p2e")); inner.push_child(p2)
  ruby2 = m.Ruby(d); ruby2.set_id(nid()); p2.push_child(ruby2)
  rbc = m.Rbc(d); rbc.set_id(nid()); rb2 = m.Rb(d); rb2.set_id(nid()); sb2 = m.Span(d); sb2.set_id(nid()); sb2.push_child(m.Text(d, "B")); rb2.push_child(sb2)
  rbc.push_child(rb2)
  rtc = m.Rtc(d); rtc.set_id(nid()); rt2 = m.Rt(d); rt2.set_id(nid()); st2 = m.Span(d); st2.set_id(nid()); st2.push_child(m.Text(d, "T")); rt2.push_child(st2)
  rtc.push_children([rt2])
  ruby2.push_children([rbc, rtc])
  s9 = m.Span(d); s9.set_id(nid()); s9.set_begin(v("s9b")); s9.set_end(v("s9e")); p2.push_child(s9); s9.push_child(m.Text(d, "tail"))
  return d


def shape_brset(v):
  """a line break that is the target of <set> and carries a specified style: body > div > p [pb, pe) > [span 'A', br + set(color, [ab, ae)), span 'B']"""
  nid = _ids()
  d = m.ContentDocument()
  r1 = m.Region("r1", d); d.put_region(r1)
  body = m.Body(d); body.set_id(nid()); d.set_body(body)
  div = m.Div(d); div.set_id(nid()); div.set_region(r1); body.push_child(div)
  p = m.P(d); p.set_id(nid()); p.set_begin(v("pb")); p.set_end(v("pe")); div.push_child(p)
  s1 = m.Span(d); s1.set_id(nid()); p.push_child(s1); s1.push_child(m.Text(d, "A"))
  br = m.Br(d); br.set_id(nid()); br.set_style(SP.Color, sp.NamedColors.lime.value); p.push_child(br)
  br.add_animation_step(m.DiscreteAnimationStep(SP.Color, v("ab"), v("ae"), sp.NamedColors.red.value))
  if v("hb") is not None or v("he") is not None:
    br.add_animation_step(m.DiscreteAnimationStep(SP.Display, v("hb"), v("he"), sp.DisplayType.none))     # the line break itself is hidden for a while
  s2 = m.Span(d); s2.set_id(nid()); p.push_child(s2); s2.push_child(m.Text(d, "B"))
  return d


def shape_twop(v):
  """two paragraphs in one region: p1 [b1, e1), p2 [b2, e2) -- [1, 2) when b2/e2 are not symbolic; p1 holds 'Hello' <br/> 'you', p2 'Wor<U+2028>ld<U+3000><U+00A0>!'"""
  from fractions import Fraction as F
  d = m.ContentDocument()
  r = m.Region("r1", d); d.put_region(r)
  body = m.Body(d); body.set_id("b"); d.set_body(body)
  div = m.Div(d); div.set_id("d"); body.push_child(div)
  p = m.P(d); p.set_id("p1"); p.set_region(r); p.set_begin(v("b1")); p.set_end(v("e1")); div.push_child(p)
  s = m.Span(d); s.set_id("s1"); p.push_child(s); s.push_child(m.Text(d, "Hello"))
  br = m.Br(d); br.set_id("br"); p.push_child(br)
  s3 = m.Span(d); s3.set_id("s3"); s3.set_style(SP.FontWeight, sp.FontWeightType.bold); p.push_child(s3); s3.push_child(m.Text(d, "you"))
  b2, e2 = v("b2"), v("e2")
  if b2 is None and e2 is None:
    b2, e2 = F(1), F(2)
  p2 = m.P(d); p2.set_id("p2"); p2.set_region(r); p2.set_begin(b2); p2.set_end(e2); div.push_child(p2)
  s2 = m.Span(d); s2.set_id("s2"); p2.push_child(s2); s2.push_child(m.Text(d, "Wor\u2028ld\u3000\u00a0!"))     # LINE SEPARATOR, IDEOGRAPHIC SPACE, NBSP: ordinary characters in TTML
  return d


def shape_styled(v):
  """styles that the SRT / WebVTT writers turn into tags, one of them animated: p [pb, pe) > span bold 'B', span italic+underline 'I'
  > span red 'R', span 'A' with set(color lime, [ab, ae)), span on blue 'G', br, span oblique bold-then-normal 'N'"""
  d = m.ContentDocument()
  r = m.Region("r1", d); d.put_region(r)
  body = m.Body(d); body.set_id("b"); d.set_body(body)
  div = m.Div(d); div.set_id("d"); div.set_region(r); body.push_child(div)
  p = m.P(d); p.set_id("p"); p.set_begin(v("pb")); p.set_end(v("pe")); div.push_child(p)

  def span(i, parent, text, **styles):
    e = m.Span(d); e.set_id(i); parent.push_child(e)
    for k, val in styles.items():
      e.set_style(getattr(SP, k), val)
    if text is not None:
      e.push_child(m.Text(d, text))
    return e

  span("s0", p, "C", Color=sp.NamedColors.blue.value)       # the same colour value is used below as a background
  span("s1", p, "B", FontWeight=sp.FontWeightType.bold)
  s2 = span("s2", p, "I", FontStyle=sp.FontStyleType.italic, TextDecoration=sp.TextDecorationType(underline=True))
  span("s3", s2, "R", Color=sp.NamedColors.red.value)
  s4 = span("s4", p, "A")
  s4.add_animation_step(m.DiscreteAnimationStep(SP.Color, v("ab"), v("ae"), sp.NamedColors.lime.value))
  span("s5", p, "G", BackgroundColor=sp.NamedColors.blue.value)
  br = m.Br(d); br.set_id("br"); p.push_child(br)
  s8 = span("s8", p, None)
  span("s9", s8, "W", Color=sp.ColorType((255, 255, 255, 255)))      # the default colour, specified (an equal, not the identical, value) under a default parent
  s6 = span("s6", p, None, FontWeight=sp.FontWeightType.bold, FontStyle=sp.FontStyleType.oblique)
  span("s7", s6, "N", FontWeight=sp.FontWeightType.normal, TextDecoration=sp.TextDecorationType(underline=False, line_through=True))
  return d


def shape_moving(v):
  """a region that moves: displayAlign set to `after` over [ab, ae), origin set to the lower half over [ob, oe); two paragraphs, the second from 2 s"""
  from fractions import Fraction as F
  L, U = sp.LengthType, sp.LengthType.Units
  d = m.ContentDocument()
  r = m.Region("r1", d); d.put_region(r)
  r.set_style(SP.Origin, sp.CoordinateType(x=L(10, U.pct), y=L(10, U.pct)))
  r.set_style(SP.Extent, sp.ExtentType(height=L(20, U.pct), width=L(80, U.pct)))
  r.set_style(SP.DisplayAlign, sp.DisplayAlignType.before)
  r.add_animation_step(m.DiscreteAnimationStep(SP.DisplayAlign, v("ab"), v("ae"), sp.DisplayAlignType.after))
  ob, oe = v("ob"), v("oe")
  if ob is not None or oe is not None:
    r.add_animation_step(m.DiscreteAnimationStep(SP.Origin, ob, oe, sp.CoordinateType(x=L(10, U.pct), y=L(60, U.pct))))
  body = m.Body(d); body.set_id("b"); d.set_body(body)
  div = m.Div(d); div.set_id("d"); div.set_region(r); body.push_child(div)
  p = m.P(d); p.set_id("p1"); p.set_end(F(2)); div.push_child(p)
  s = m.Span(d); s.set_id("s1"); p.push_child(s); s.push_child(m.Text(d, "one"))
  p2 = m.P(d); p2.set_id("p2"); p2.set_begin(F(2)); p2.set_end(v("p2e")); p2.set_style(SP.TextAlign, sp.TextAlignType.end); div.push_child(p2)
  s2 = m.Span(d); s2.set_id("s2"); p2.push_child(s2); s2.push_child(m.Text(d, "two"))
  return d


def shape_rubyparts(v):
  """rubies whose parts have their own timing (an annotation that is temporarily inactive), an rtc with delimiters, a part in another region"""
  nid = _ids()
  d = m.ContentDocument()
  r1 = m.Region("r1", d); d.put_region(r1)
  r2 = m.Region("r2", d); d.put_region(r2)
  body = m.Body(d); body.set_id(nid()); d.set_body(body)
  div = m.Div(d); div.set_id(nid()); div.set_region(r1); body.push_child(div)
  p = m.P(d); p.set_id(nid()); p.set_begin(v("pb")); p.set_end(v("pe")); div.push_child(p)
  s0 = m.Span(d); s0.set_id(nid()); p.push_child(s0); s0.push_child(m.Text(d, "lead"))
  ruby = m.Ruby(d); ruby.set_id(nid()); p.push_child(ruby)
  rb = m.Rb(d); rb.set_id(nid()); rb.set_begin(v("rbb")); rb.set_end(v("rbe"))
  sb = m.Span(d); sb.set_id(nid()); sb.push_child(m.Text(d, "base")); rb.push_child(sb)
  rt = m.Rt(d); rt.set_id(nid()); rt.set_begin(v("rtb")); rt.set_end(v("rte"))
  st = m.Span(d); st.set_id(nid()); st.push_child(m.Text(d, "ann")); rt.push_child(st)
  ruby.push_children([rb, rt])
  p2 = m.P(d); p2.set_id(nid()); div.push_child(p2)
  ruby2 = m.Ruby(d); ruby2.set_id(nid()); p2.push_child(ruby2)
  rbc = m.Rbc(d); rbc.set_id(nid()); rb2 = m.Rb(d); rb2.set_id(nid()); sb2 = m.Span(d); sb2.set_id(nid()); sb2.push_child(m.Text(d, "B")); rb2.push_child(sb2)
  rbc.push_child(rb2)
  rtc = m.Rtc(d); rtc.set_id(nid()); rtc.set_begin(v("rtcb")); rtc.set_end(v("rtce"))
  rp1 = m.Rp(d); rp1.set_id(nid()); rp1.set_end(v("rp1e")); sp1 = m.Span(d); sp1.set_id(nid()); sp1.push_child(m.Text(d, "(")); rp1.push_child(sp1)
  rt2 = m.Rt(d); rt2.set_id(nid()); rt2.set_begin(v("rt2b")); rt2.set_end(v("rt2e"))
  st2 = m.Span(d); st2.set_id(nid()); st2.push_child(m.Text(d, "T")); rt2.push_child(st2)
  rp2 = m.Rp(d); rp2.set_id(nid()); sp2 = m.Span(d); sp2.set_id(nid()); sp2.push_child(m.Text(d, ")")); rp2.push_child(sp2)
  rt2x = m.Rt(d); rt2x.set_id(nid()); rt2x.set_region(r2)      # an annotation inside delimiters that is flowed into another region
  st2x = m.Span(d); st2x.set_id(nid()); st2x.push_child(m.Text(d, "X")); rt2x.push_child(st2x)
  rtc.push_children([rp1, rt2, rt2x, rp2])
  rtc2 = m.Rtc(d); rtc2.set_id(nid()); rtc2.set_region(r2)
  rt3 = m.Rt(d); rt3.set_id(nid()); st3 = m.Span(d); st3.set_id(nid()); st3.push_child(m.Text(d, "U")); rt3.push_child(st3)
  rtc2.push_children([rt3])
  ruby2.push_children([rbc, rtc, rtc2])
  # a text container whose only annotation, between delimiters, is flowed into another region
  ruby3 = m.Ruby(d); ruby3.set_id(nid()); p2.push_child(ruby3)
  rbc3 = m.Rbc(d); rbc3.set_id(nid()); rb3 = m.Rb(d); rb3.set_id(nid()); sb3 = m.Span(d); sb3.set_id(nid()); sb3.push_child(m.Text(d, "C")); rb3.push_child(sb3)
  rbc3.push_child(rb3)
  rtc3 = m.Rtc(d); rtc3.set_id(nid())
  rpa = m.Rp(d); rpa.set_id(nid()); spa = m.Span(d); spa.set_id(nid()); spa.push_child(m.Text(d, "[")); rpa.push_child(spa)
  rt4 = m.Rt(d); rt4.set_id(nid()); rt4.set_region(r2); st4 = m.Span(d); st4.set_id(nid()); st4.push_child(m.Text(d, "V")); rt4.push_child(st4)
  rpb = m.Rp(d); rpb.set_id(nid()); spb = m.Span(d); spb.set_id(nid()); spb.push_child(m.Text(d, "]")); rpb.push_child(spb)
  rtc3.push_children([rpa, rt4, rpb])
  ruby3.push_children([rbc3, rtc3])
  return d


def shape_order(v):
  """three regions that are shown only while they have content (showBackground=whenActive), declared in the order r1, r2, r3, each with
  one paragraph of its own with free timing: ANY order of first appearance, so a snapshot that lists or paints its regions in
  anything but document order differs from the reference for some timing (the regions overlap on screen)"""
  nid = _ids()
  d = m.ContentDocument()
  rs = []
  for k, col in ((1, "red"), (2, "blue"), (3, "lime")):
    r = m.Region(f"r{k}", d)
    r.set_style(SP.ShowBackground, sp.ShowBackgroundType.whenActive)
    r.set_style(SP.BackgroundColor, sp.NamedColors[col].value)
    r.set_style(SP.Origin, sp.CoordinateType(sp.LengthType(10 * k, sp.LengthType.Units.pct), sp.LengthType(10 * k, sp.LengthType.Units.pct)))
    r.set_style(SP.Extent, sp.ExtentType(sp.LengthType(50, sp.LengthType.Units.pct), sp.LengthType(50, sp.LengthType.Units.pct)))
    d.put_region(r)
    rs.append(r)
  body = m.Body(d); body.set_id(nid()); d.set_body(body)
  div = m.Div(d); div.set_id(nid()); body.push_child(div)
  for k, (b, e, text) in enumerate((("p1b", "p1e", "one"), ("p2b", "p2e", "two"), ("p3b", "p3e", "three"))):
    p = m.P(d); p.set_id(nid()); p.set_region(rs[k]); p.set_begin(v(b)); p.set_end(v(e)); div.push_child(p)
    sp_ = m.Span(d); sp_.set_id(nid()); p.push_child(sp_); sp_.push_child(m.Text(d, text))
  if v("p4b") is not None or v("p4e") is not None:
    # a fourth paragraph (in r1) that holds nothing but an IDEOGRAPHIC SPACE on a black background: not white space for TTML, so it is
    # content like any other and keeps its region alive while it is active
    p = m.P(d); p.set_id(nid()); p.set_region(rs[0]); p.set_begin(v("p4b")); p.set_end(v("p4e")); div.push_child(p)
    sp_ = m.Span(d); sp_.set_id(nid()); sp_.set_style(SP.BackgroundColor, sp.NamedColors.black.value); p.push_child(sp_); sp_.push_child(m.Text(d, "\u3000"))
  return d


def shape_tworegions(v):
  """two regions with the same alignment and geometry class, each with its own symbolic begin / end and one paragraph: candidates for
  merging by the LCD filter exactly when their intervals are EQUAL (not when they are merely close)"""
  d = m.ContentDocument()
  for k in (1, 2):
    r = m.Region(f"r{k}", d)
    r.set_begin(v(f"q{k}b")); r.set_end(v(f"q{k}e"))
    r.set_style(SP.DisplayAlign, sp.DisplayAlignType.after)
    d.put_region(r)
  body = m.Body(d); body.set_id("b"); d.set_body(body)
  div = m.Div(d); div.set_id("d"); body.push_child(div)
  for k, text in ((1, "ALPHA"), (2, "BRAVO")):
    p = m.P(d); p.set_id(f"p{k}"); p.set_region(d.get_region(f"r{k}")); div.push_child(p)
    sp_ = m.Span(d); sp_.set_id(f"s{k}"); p.push_child(sp_); sp_.push_child(m.Text(d, text))
  return d


SHAPES = {"tworegions": shape_tworegions, "order": shape_order, "moving": shape_moving, "styled": shape_styled, "twop": shape_twop, "brset": shape_brset, "rubyparts": shape_rubyparts, "ruby": shape_ruby, "nested": shape_nested, "regions": shape_regions, "display": shape_display, "background": shape_background}
# which of the timing variables are present (None otherwise); a few masks per shape keep the path count moderate
MASKS = {
  "order": [("p1b", "p2b", "p3b"), ("p1b", "p1e", "p2b", "p2e"), ("p1e", "p2b", "p3e"), ("p1e", "p4b", "p4e")],
  "moving": [("ab", "ae"), ("ob", "oe")],
  "styled": [("ab", "ae"), ("pe", "ab")],
  "twop": [("b1", "e1"), ("e1", "b2"), ("b1", "e2")],
  "brset": [("pb", "pe", "ab", "ae"), ("ab", "ae"), ("pe", "ab"), ("hb", "he"), ("pb", "hb", "he")],
  "rubyparts": [("rtb", "rte", "pb"), ("rbb", "rbe", "rtb"), ("rtcb", "rtce", "rt2b"), ("rp1e", "rt2b", "rt2e"), ("pe", "rte", "rbe", "rtce")],
  "nested": [("bb", "be", "pb", "pe"), ("db", "de", "s1b", "s1e"), ("pb", "pe", "s3b", "s3e"), ("be", "de", "pe", "s1e", "s3e"), ("bb", "db", "pb", "s1b", "s3b"),
             ("s1b", "s3b", "s3e"), ("db", "s1e", "s3e")],
  "regions": [("r1b", "r1e", "p1b", "p1e"), ("d2b", "d2e", "p3e"), ("r3b", "r1e", "d2e", "p1e"), ("r1b", "d2b", "p1b", "p3e")],
  "display": [("p1b", "p1e", "ab", "ae"), ("ab", "ae", "a2b"), ("cb", "ce", "s3b"), ("rab", "rae", "p1b"), ("p1e", "ae", "ce", "rae")],
  "ruby": [("db", "de", "rub", "rue"), ("pb", "pe", "rub"), ("r2b", "r2e", "p2b", "p2e"), ("p2e", "s9b", "s9e"), ("de", "pe", "rue", "s9e")],
  "background": [("sab", "sae", "pb", "pe"), ("s3b", "s3e", "pe"), ("gab", "gae", "pe", "s3e"), ("r2b", "r2e", "s3e"), ("sab", "pe", "s3e"), ("oab", "oae")],
}


