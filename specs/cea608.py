"""CEA-608 (47 CFR 15.119) word classification and tables -- the oracle of C17, written from the standard as bit fields
and ranges, NOT as an enumeration of ttconv's tables.  Inputs are the two bytes after removal of the parity bit."""

PADDING, PRINTABLE, PAC, MIDROW, CONTROL, ATTRIBUTE, SPECIAL, EXTENDED, UNKNOWN = (
  "padding", "printable", "pac", "mid-row", "control", "attribute", "special", "extended", "unknown")

CONTROL_NAMES = ["RCL", "BS", "AOF", "AON", "DER", "RU2", "RU3", "RU4", "FON", "RDC", "TR", "RTD", "EDM", "CR", "ENM", "EOC"]

COLORS = ["white", "green", "blue", "cyan", "red", "yellow", "magenta"]
# CEA-608 names colours, not RGB triplets: "green" may be rendered as TTML/CSS green (0,128,0) or as pure green (0,255,0)
GREENS = ((0, 255, 0), (0, 128, 0))
RGB = {"white": (255, 255, 255), "green": (0, 255, 0), "blue": (0, 0, 255), "cyan": (0, 255, 255), "red": (255, 0, 0),
       "yellow": (255, 255, 0), "magenta": (255, 0, 255), "black": (0, 0, 0)}


def classify(b1: int, b2: int):
  """-> (class, channel in {1, 2, None}, field in {1, 2, None}, details dict)"""
  if b1 == 0 and b2 == 0:
    return PADDING, None, None, {}
  if b1 >= 0x20:
    return PRINTABLE, None, None, {}
  if b1 < 0x10:
    return UNKNOWN, None, None, {}
  ch = 2 if b1 & 0x08 else 1
  c = b1 & 0x07          # the code group without the channel bit
  if 0x40 <= b2 <= 0x7F:
    rows = {1: (1, 2), 2: (3, 4), 5: (5, 6), 6: (7, 8), 7: (9, 10), 0: (11, None), 3: (12, 13), 4: (14, 15)}[c]
    row = rows[1] if b2 & 0x20 else rows[0]
    if row is None:
      return UNKNOWN, None, None, {}
    attr = (b2 & 0x1E) >> 1
    d = {"row": row, "underline": bool(b2 & 1), "indent": None, "color": None, "italic": False}
    if b2 & 0x10:
      d["indent"] = attr_indent = (attr & 0x7) * 4
      d["color"] = "white"
    elif attr == 7:
      d["italic"] = True
      d["color"] = "white"
    else:
      d["color"] = COLORS[attr]
    return PAC, ch, 1, d
  if 0x20 <= b2 <= 0x2F:
    if c == 0:       # background attributes 10/18 20-2F
      return ATTRIBUTE, ch, 1, {"background": True, "color": (COLORS + ["black"])[(b2 & 0x0E) >> 1], "semi": bool(b2 & 1)}
    if c == 1:       # mid-row 11/19 20-2F
      attr = (b2 & 0x0E) >> 1
      return MIDROW, ch, 1, {"color": None if attr == 7 else COLORS[attr], "italic": attr == 7, "underline": bool(b2 & 1)}
    if c == 4:       # miscellaneous control codes, field 1
      return CONTROL, ch, 1, {"name": CONTROL_NAMES[b2 & 0x0F]}
    if c == 5:       # miscellaneous control codes, field 2: attributed to neither channel 1 nor channel 2 of field 1
      return CONTROL, None, 2, {"name": CONTROL_NAMES[b2 & 0x0F]}
    if c == 7:
      if 0x21 <= b2 <= 0x23:
        return CONTROL, ch, 1, {"name": "TO%d" % (b2 & 3)}
      if b2 == 0x2D:
        return ATTRIBUTE, ch, 1, {"background": True, "color": "transparent", "semi": False}
      if b2 == 0x2E:
        return ATTRIBUTE, ch, 1, {"background": False, "color": "black", "underline": False}
      if b2 == 0x2F:
        return ATTRIBUTE, ch, 1, {"background": False, "color": "black", "underline": True}
      return UNKNOWN, None, None, {}
    if c in (2, 3):
      return EXTENDED, ch, 1, {"index": (c - 2) * 32 + (b2 - 0x20)}
    return UNKNOWN, None, None, {}
  if 0x30 <= b2 <= 0x3F:
    if c == 1:
      return SPECIAL, ch, 1, {"index": b2 - 0x30}
    if c in (2, 3):
      return EXTENDED, ch, 1, {"index": (c - 2) * 32 + (b2 - 0x20)}
    return UNKNOWN, None, None, {}
  return UNKNOWN, None, None, {}


# Characters.  CEA-608 names glyphs, not code points: where several code points render the named glyph the set is given.
STANDARD_SUBSTITUTIONS = {0x2A: "á", 0x5C: "é", 0x5E: "í", 0x5F: "ó", 0x60: "ú", 0x7B: "ç",
                          0x7C: "÷", 0x7D: "Ñ", 0x7E: "ñ", 0x7F: {"█", "■"}}


def standard_char(b: int):
  """acceptable renderings of a standard-set byte 0x20..0x7F"""
  v = STANDARD_SUBSTITUTIONS.get(b, chr(b))
  return v if isinstance(v, set) else {v}


SPECIAL_CHARS = ["®", "°", "½", "¿", "™", "¢", "£", "♪", "à", {" ", " "},
                 "è", "â", "ê", "î", "ô", "û"]

_DASH = {"—", "―", "━", "─"}
_BAR = {"|", "¦", "│", "┃"}
EXTENDED_CHARS = [
  # 12/1A 20-3F: Spanish, miscellaneous, French
  "Á", "É", "Ó", "Ú", "Ü", "ü", {"‘", "`"}, "¡",
  "*", {"'", "’"}, _DASH, "©", "℠", {"•", "●", "·"}, "“", "”",
  "À", "Â", "Ç", "È", "Ê", "Ë", "ë", "Î", "Ï", "ï", "Ô", "Ù", "ù", "Û", "«", "»",
  # 13/1B 20-3F: Portuguese, German, Danish
  "Ã", "ã", "Í", "Ì", "ì", "Ò", "ò", "Õ", "õ", "{", "}", "\\", {"^", "ʌ", "ˆ", "‸"}, "_", _BAR, "~",
  "Ä", "ä", "Ö", "ö", "ß", "¥", "¤", _BAR,
  "Å", "å", "Ø", "ø", {"┌", "┏", "⎡"}, {"┐", "┓", "⎤"}, {"└", "┗", "⎣"}, {"┘", "┛", "⎦"},
]


def accept(entry):
  return entry if isinstance(entry, set) else {entry}


def rgb_ok(name, triple):
  """is `triple` an acceptable rendering of the CEA-608 colour `name`"""
  if name == "green":
    return triple in GREENS
  return triple == RGB[name]
