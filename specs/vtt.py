"""Independent WebVTT oracle (W3C "WebVTT: The Web Video Text Tracks Format"), written from the format, not from ttconv.

Three parts, all plain Python / stdlib:

  * file level (section 4.1 "WebVTT file structure", 6.1 parser): `parse_file(text) -> [Cue]` -- header line, blocks
    separated by blank lines, a block whose first or second line contains "-->" is a cue block (optional identifier line,
    timing line with optional settings, payload lines); every other block (NOTE, STYLE, REGION) produces nothing;
  * cue text (4.2.2 "WebVTT cue text", 6.4 tokenizer / cue text parsing rules): `parse_cue_text(payload) -> tree` and
    `flatten(tree, cue_begin)` -> a structure-independent description: for every piece of text the set of attributes the
    enclosing tags give it (bold, italic, underline, colour classes, language, ruby base / ruby text) and the time stamp
    that precedes it, with line breaks;
  * cue settings (4.4 / 6.3 and the rendering rules 7.2): `parse_settings`, `region_requirements` -- what the property
    demands of the region a cue is put into (see notes/ORACLES.md section 8: the mapping to a TTML region is ttconv's own;
    only containment in the root container, alignment and the anchoring edge are required).

Only conforming input is in scope (tags properly nested, `&` and `<` escaped, every character reference terminated by `;`).
"""
from __future__ import annotations

import re
from dataclasses import dataclass, field
from fractions import Fraction
from html.entities import html5 as _HTML5   # the HTML named character reference table (standard data, not ttconv's)
from typing import List, Optional

# ---------------------------------------------------------------------------------------------------------------------
# time stamps

_TS = re.compile(r"(?:([0-9]{2,}):)?([0-5][0-9]):([0-5][0-9])\.([0-9]{3})")


def timestamp(s: str) -> Optional[Fraction]:
  """`hh+:mm:ss.ttt` or `mm:ss.ttt` -> exact number of seconds (None if not a WebVTT timestamp)."""
  m = _TS.fullmatch(s)
  if not m:
    return None
  h = int(m.group(1)) if m.group(1) is not None else 0
  return Fraction(((h * 60 + int(m.group(2))) * 60 + int(m.group(3))) * 1000 + int(m.group(4)), 1000)


def format_timestamp(ms: int, hours: str = "auto", hour_digits: int = 2) -> str:
  """print `ms` milliseconds; hours: "auto" (omitted when zero), "always", "never" (only legal below one hour)"""
  h, rest = divmod(ms, 3600000)
  m, rest = divmod(rest, 60000)
  s, t = divmod(rest, 1000)
  if hours == "never" or (hours == "auto" and h == 0):
    assert h == 0
    return f"{m:02d}:{s:02d}.{t:03d}"
  return f"{h:0{hour_digits}d}:{m:02d}:{s:02d}.{t:03d}"


# ---------------------------------------------------------------------------------------------------------------------
# file level


@dataclass
class Cue:
  identifier: Optional[str]
  begin: Fraction
  end: Fraction
  settings: List[str]
  payload: str          # payload lines joined with "\n" (may be empty)
  line_no: int = 0


_TIMING = re.compile(r"[ \t]*(\S+)[ \t]+-->[ \t]+(\S+)(?:[ \t]+(.*?))?[ \t]*")


def split_lines(text: str) -> List[str]:
  """WebVTT line terminators: CRLF, LF, CR"""
  return text.replace("\r\n", "\n").replace("\r", "\n").split("\n")


def parse_file(text: str) -> List[Cue]:
  if text.startswith("\ufeff"):
    text = text[1:]
  lines = split_lines(text)
  cues: List[Cue] = []
  if not lines:
    return cues
  i = 1
  n = len(lines)
  # rest of the header block
  while i < n and lines[i] != "":
    i += 1
  while i < n:
    if lines[i] == "":
      i += 1
      continue
    j = i
    while j < n and lines[j] != "":
      j += 1
    block = lines[i:j]
    ident, timing, payload = None, None, None
    if "-->" in block[0]:
      timing, payload = block[0], block[1:]
    elif len(block) > 1 and "-->" in block[1]:
      ident, timing, payload = block[0], block[1], block[2:]
    if timing is not None:
      m = _TIMING.fullmatch(timing)
      if m:
        b, e = timestamp(m.group(1)), timestamp(m.group(2))
        if b is not None and e is not None:
          settings = m.group(3).split() if m.group(3) else []
          cues.append(Cue(ident, b, e, settings, "\n".join(payload), i + 1))
    i = j
  return cues


# ---------------------------------------------------------------------------------------------------------------------
# cue text

# WebVTT default colour classes (section 5.3? "default classes for WebVTT cue components"): sRGB values
COLOURS = {
  "white": (255, 255, 255), "lime": (0, 255, 0), "cyan": (0, 255, 255), "red": (255, 0, 0),
  "yellow": (255, 255, 0), "magenta": (255, 0, 255), "blue": (0, 0, 255), "black": (0, 0, 0),
}
TAGS = ("c", "i", "b", "u", "v", "lang", "ruby", "rt")

_CHARREF = re.compile(r"&(#[0-9]+|#[xX][0-9a-fA-F]+|[A-Za-z][A-Za-z0-9]*);")


def _decode_ref(m):
  body = m.group(1)
  if body[0] == "#":
    cp = int(body[2:], 16) if body[1] in "xX" else int(body[1:])
    if cp == 0 or cp > 0x10FFFF or 0xD800 <= cp <= 0xDFFF:
      return "\ufffd"
    return chr(cp)
  v = _HTML5.get(body + ";")
  return v if v is not None else m.group(0)   # unknown name: not a character reference, stays as written


def decode_charrefs(s: str) -> str:
  """HTML character references terminated by `;` (named, decimal, hexadecimal)"""
  return _CHARREF.sub(_decode_ref, s)


@dataclass
class Node:
  kind: str                       # "root" | one of TAGS | "text" | "ts"
  classes: List[str] = field(default_factory=list)
  annotation: Optional[str] = None
  text: str = ""                  # kind == "text"
  time: Optional[Fraction] = None  # kind == "ts"
  children: List["Node"] = field(default_factory=list)
  parent: Optional["Node"] = None

  def add(self, child):
    child.parent = self
    self.children.append(child)
    return child


_TOKEN = re.compile(r"<([^<>]*)>|([^<]+)")


def tokens(payload: str):
  """-> [("text", decoded) | ("start", name, classes, annotation) | ("end", name) | ("ts", Fraction)]"""
  out = []
  for m in _TOKEN.finditer(payload):
    if m.group(2) is not None:
      out.append(("text", decode_charrefs(m.group(2))))
      continue
    body = m.group(1)
    if body.startswith("/"):
      out.append(("end", body[1:]))
      continue
    t = timestamp(body)
    if t is not None:
      out.append(("ts", t))
      continue
    mm = re.match(r"([^ \t\n\f.]*)((?:\.[^ \t\n\f.]*)*)(?:[ \t\n\f]+(.*))?$", body, re.S)
    name = mm.group(1)
    classes = [c for c in mm.group(2).split(".") if c]
    annotation = mm.group(3)
    if annotation is not None:
      annotation = " ".join(decode_charrefs(annotation).split())
    out.append(("start", name, classes, annotation))
  return out


def parse_cue_text(payload: str) -> Node:
  """cue text parsing rules (6.4): a tree of WebVTT internal node objects and leaves"""
  root = Node("root")
  cur = root
  for tok in tokens(payload):
    if tok[0] == "text":
      cur.add(Node("text", text=tok[1]))
    elif tok[0] == "ts":
      cur.add(Node("ts", time=tok[1]))
    elif tok[0] == "start":
      _, name, classes, annotation = tok
      if name in ("c", "i", "b", "u", "ruby", "v", "lang"):
        cur = cur.add(Node(name, classes, annotation))
      elif name == "rt" and cur.kind == "ruby":
        cur = cur.add(Node("rt", classes, annotation))
      # any other start tag is ignored
    else:
      name = tok[1]
      if cur.kind == name and cur.parent is not None:
        cur = cur.parent
      elif name == "ruby" and cur.kind == "rt":
        cur = cur.parent.parent
      # otherwise ignored
  return root


@dataclass(frozen=True)
class Attrs:
  bold: bool = False
  italic: bool = False
  underline: bool = False
  colour: Optional[tuple] = None       # (r, g, b) of the innermost enclosing <c> with a colour class
  background: Optional[tuple] = None   # (r, g, b) of the innermost enclosing <c> with a bg_ colour class
  lang: Optional[str] = None           # innermost enclosing <lang>
  ruby: Optional[str] = None           # "base" (inside <ruby>, not inside <rt>) | "text" (inside <rt>) | None
  begin: Optional[Fraction] = None     # absolute media time of the time stamp tag that precedes the text, if any


def flatten(root: Node, cue_begin: Fraction = None):
  """-> list of ("text", Attrs, str) and ("br",) in document order; adjacent text with equal attributes is merged and
  empty text dropped, so that the result does not depend on how spans are nested or split."""
  items = []
  state = {"ts": None}

  def walk(node, a: Attrs):
    for ch in node.children:
      if ch.kind == "text":
        parts = ch.text.split("\n")
        for k, part in enumerate(parts):
          if k:
            items.append(("br",))
          if part:
            items.append(("text", _replace(a, begin=state["ts"]), part))
      elif ch.kind == "ts":
        state["ts"] = ch.time
      else:
        b = a
        if ch.kind == "b":
          b = _replace(b, bold=True)
        elif ch.kind == "i":
          b = _replace(b, italic=True)
        elif ch.kind == "u":
          b = _replace(b, underline=True)
        elif ch.kind == "c":
          for c in ch.classes:
            if c in COLOURS:
              b = _replace(b, colour=COLOURS[c])
            elif c.startswith("bg_") and c[3:] in COLOURS:
              b = _replace(b, background=COLOURS[c[3:]])
        elif ch.kind == "lang":
          b = _replace(b, lang=ch.annotation or None)
        elif ch.kind == "ruby":
          b = _replace(b, ruby="base")
        elif ch.kind == "rt":
          b = _replace(b, ruby="text")
        walk(ch, b)

  walk(root, Attrs())
  return merge(items)


def _replace(a: Attrs, **kw):
  d = dict(a.__dict__)
  d.update(kw)
  return Attrs(**d)


def merge(items):
  out = []
  for it in items:
    if it[0] == "text" and it[2] == "":
      continue
    if it[0] == "text" and out and out[-1][0] == "text" and out[-1][1] == it[1]:
      out[-1] = ("text", it[1], out[-1][2] + it[2])
    else:
      out.append(it)
  return out


def plain_lines(items) -> List[str]:
  """the payload as plain text lines (for messages and the text-only comparison)"""
  lines = [""]
  for it in items:
    if it[0] == "br":
      lines.append("")
    else:
      lines[-1] += it[2]
  return lines


# ---------------------------------------------------------------------------------------------------------------------
# cue settings

_PCT = re.compile(r"([0-9]+(?:\.[0-9]+)?)%")
_INT = re.compile(r"-?[0-9]+")


def percentage(s: str) -> Optional[Fraction]:
  m = _PCT.fullmatch(s)
  if not m:
    return None
  v = Fraction(m.group(1))
  return v if 0 <= v <= 100 else None


@dataclass
class Settings:
  vertical: Optional[str] = None            # "rl" | "lr"
  line: Optional[object] = None             # Fraction percentage or int line number
  line_is_pct: bool = False
  line_align: Optional[str] = None          # "start" | "center" | "end" (explicit only)
  position: Optional[Fraction] = None
  position_align: Optional[str] = None      # "line-left" | "center" | "line-right" (explicit only)
  size: Optional[Fraction] = None
  align: Optional[str] = None               # "start" | "center" | "end" | "left" | "right"


def parse_settings(settings: List[str]) -> Settings:
  """6.3 "parse the WebVTT cue settings": unknown or malformed settings are ignored, a later setting overrides an earlier one"""
  s = Settings()
  for item in settings:
    name, sep, value = item.partition(":")
    if not sep or not name or not value:
      continue
    if name == "vertical":
      if value in ("rl", "lr"):
        s.vertical = value
    elif name == "line":
      pos, sep2, al = value.partition(",")
      if sep2 and al not in ("start", "center", "end"):
        continue
      p = percentage(pos)
      if p is not None:
        s.line, s.line_is_pct = p, True
      elif _INT.fullmatch(pos):
        s.line, s.line_is_pct = int(pos), False
      else:
        continue
      s.line_align = al if sep2 else None
    elif name == "position":
      pos, sep2, al = value.partition(",")
      if sep2 and al not in ("line-left", "center", "line-right"):
        continue
      p = percentage(pos)
      if p is None:
        continue
      s.position, s.position_align = p, (al if sep2 else None)
    elif name == "size":
      p = percentage(value)
      if p is not None:
        s.size = p
    elif name == "align":
      if value in ("start", "center", "end", "left", "right"):
        s.align = value
  return s


WRITING_MODE = {None: "lrtb", "rl": "tbrl", "lr": "tblr"}


@dataclass
class RegionRequirements:
  writing_mode: str
  text_align: tuple               # accepted TTML textAlign values
  display_align: tuple            # accepted TTML displayAlign values
  line_axis: str                  # "y" for horizontal cues, "x" for vertical cues
  position_axis: str
  line_anchor: Optional[tuple] = None      # (edge, value, tolerance, mirrored_ok): edge in "start"|"center"|"end" of the region on the line axis
  position_anchor: Optional[tuple] = None  # (edge, value, tolerance) on the position axis
  position_extent: Optional[tuple] = None  # (value, tolerance): extent on the position axis when `size` and `position` are given


def region_requirements(s: Settings) -> RegionRequirements:
  """What the property statement (with the WebVTT rendering rules 7.2) demands from the region of a cue with these settings,
  for left-to-right cue text.  The region is a box (origin, extent) in percent of the root container."""
  horizontal = s.vertical is None
  # text alignment (7.2 / 4.4 "text alignment"): left/right are the line-left/line-right side, which for left-to-right
  # text (and for vertical text, where the lines run top to bottom) is the start/end side
  ta = {None: "center", "center": "center", "start": "start", "left": "start", "end": "end", "right": "end"}[s.align]
  # display alignment: the line alignment start|center|end puts the before|centre|after edge of the cue box at the line
  # position; without `line` the cue is placed automatically at the end of the block progression (bottom of the video)
  if s.line is None:
    da = ("after",)
  else:
    la = s.line_align or "start"
    da = ({"start": "before", "center": "center", "end": "after"}[la],)
    if la != "center" and s.vertical == "rl":
      # the definition of line alignment (start = right side for vertical growing left) and the rendering algorithm
      # (x measured from the left, end alignment subtracts the width) disagree: both readings are accepted
      da = ("before", "after")
    elif not s.line_is_pct and s.line < 0 and s.line_align is None:
      # negative line numbers count from the end; the boxes are moved back into the video upwards: anchoring the cue
      # at its before or at its after edge are both reasonable
      da = ("before", "after")
  req = RegionRequirements(WRITING_MODE[s.vertical], (ta,), da, "y" if horizontal else "x", "x" if horizontal else "y")
  if s.line is not None and s.line_is_pct:
    tol = Fraction(1, 10 ** 6) if s.line.denominator == 1 else Fraction(1, 2) + Fraction(1, 10 ** 6)
    req.line_anchor = (s.line_align or "start", s.line, tol, s.vertical == "rl")
  elif s.line is not None and s.line == 0:
    # line number 0 is the first line: zero line heights from the start edge, whatever the line height is
    req.line_anchor = (s.line_align or "start", Fraction(0), Fraction(1, 10 ** 6), s.vertical == "rl")
  if s.position is not None:
    pa = s.position_align
    if pa is None:
      pa = {"start": "line-left", "end": "line-right", "center": "center"}[ta]
    edge = {"line-left": "start", "center": "center", "line-right": "end"}[pa]
    ptol = Fraction(1, 10 ** 6) if s.position.denominator == 1 else Fraction(1, 2) + Fraction(1, 10 ** 6)
    req.position_anchor = (edge, s.position, ptol)
    if s.size is not None:
      # 7.2 "maximum size": line-left: 100 - position; line-right: position; center: twice the distance to the nearer edge
      if pa == "line-left":
        mx = 100 - s.position
      elif pa == "line-right":
        mx = s.position
      else:
        mx = 2 * min(s.position, 100 - s.position)
      stol = ptol if s.size.denominator == 1 else Fraction(1) + Fraction(1, 10 ** 6)
      req.position_extent = (min(s.size, mx), 2 * stol)
  return req
