#!/usr/bin/env python3
"""Prints the markdown table of seeded changes (from seeded/*/meta.json) for DESIGN.md section 9."""
import glob
import json
import os

V = os.path.dirname(os.path.dirname(os.path.abspath(__file__)))
for d in sorted(glob.glob(os.path.join(V, "seeded", "*", "meta.json"))):
  m = json.load(open(d))
  name = os.path.basename(os.path.dirname(d))
  note = (m.get("needs_to_manifest") or "").strip().splitlines()
  what = next((ln.strip() for ln in note if ln.strip()), "")[:110]
  first = ""
  for c, r in m.get("checks", {}).items():
    if r["exit"] == 1:
      fr = r.get("first_replay") or {}
      first = f"{c}: `{(fr.get('finding') or '')[:70]}`" + (" (replayed natively)" if fr.get("reproduced_natively") else "")
      break
  if "caught_by_initially" in m:
    first = (first + " — " if first else "") + "**missed at first**, caught after strengthening: " + m.get("strengthening", "")[:260]
  print(f"| {name} | {what} | {', '.join(m.get('caught_by') or []) or 'MISSED'} | {first} |")
