#!/usr/bin/env python3
"""setup_cmd: nothing is built or cached (every check parses /repo afresh); this only verifies the tool chain is present."""
import os
import subprocess
import sys

import z3
import cvc5

print("z3", z3.get_version_string(), "cvc5", getattr(cvc5, "__version__", "?"))
r = subprocess.run(["/venv/bin/python", "-c", "import ttconv, sys; print('ttconv at', ttconv.__file__, 'python', sys.version.split()[0])"],
                   capture_output=True, text=True)
print(r.stdout.strip() or r.stderr.strip())
sys.exit(r.returncode)
