#!/bin/bash
# tools/seed_recheck.sh <seeded name, e.g. C08b-1> [check ids...]: re-runs a stored seeded change against the current checks in a scratch worktree of /repo's HEAD
set -e
name=$1; shift
prop=${name%-*}; k=${name##*-}
wt=/tmp/seed_recheck_$$
git -C /repo worktree add -q --detach $wt HEAD
mkdir -p $wt/SEED/$k
cp /verif/seeded/$name/patch.diff /verif/seeded/$name/demo.py $wt/SEED/$k/
[ -f /verif/seeded/$name/notes.txt ] && cp /verif/seeded/$name/notes.txt $wt/SEED/$k/
python3-vt /verif/tools/seed_eval.py $prop $wt $k "$@" || true
git -C /repo worktree remove --force $wt
