#!/usr/bin/env python3
"""CPython cross-check of pyvc's mechanical rewriting: runs the repository's own unit tests against the REWRITTEN modules
(the ones the proofs execute) on concrete values.  Apart from the tests that already fail on the untouched code
(BASELINE always_fail: missing test resources), every test must pass -- on concrete values the rewriting is the identity."""
import json
import logging
import os
import sys
import unittest

VERIF = os.path.dirname(os.path.dirname(os.path.abspath(__file__)))
sys.path.insert(0, VERIF)
PLAIN = "--plain" in sys.argv      # reference run: the same tests on the untouched modules under the same interpreter
from pyvc import loader  # noqa: E402
if PLAIN:
  sys.path.insert(0, os.path.join(loader.REPO, "src", "main", "python"))
else:
  loader.install()
REPO = loader.REPO
os.chdir(REPO)
sys.path.insert(0, os.path.join(REPO, "src", "test", "python"))
os.dup2(os.open(os.devnull, os.O_WRONLY), 2)
suite = unittest.defaultTestLoader.discover("src/test/python", pattern="test_*.py", top_level_dir="src/test/python")
r = unittest.TextTestRunner(verbosity=0, stream=open(os.devnull, "w")).run(suite)
bad = sorted(t.id() for t, _ in r.failures + r.errors)
base = json.load(open("/root/.vp/BASELINE.json")) if os.path.isfile("/root/.vp/BASELINE.json") else {"always_fail": []}
known = {x.split("::")[-1] for x in base.get("always_fail", [])}
new = [b for b in bad if b.split(".")[-1] not in known]
print(f"tests run on {'untouched' if PLAIN else 'rewritten'} modules: {r.testsRun}; failing {len(bad)}; failing beyond the baseline: {len(new)}")
print("FAILING " + json.dumps(bad))
for b in new:
  print("  ", b)
  for t, tb in r.failures + r.errors:
    if t.id() == b:
      print("     ", tb.strip().splitlines()[-1][:300])
sys.exit(1 if new else 0)
