#!/usr/bin/env python3
"""Splits a unified diff into hunks and applies a chosen subset to /repo (used to turn a helper's combined patch into one
commit per defect).   hunks.py <patch> list   |   hunks.py <patch> apply 3,4,7 [--check]"""
import re
import subprocess
import sys


def parse(path):
  files, cur = [], None
  for ln in open(path, encoding="utf-8").read().splitlines(keepends=True):
    if ln.startswith("diff ") or (ln.startswith("--- ") and (cur is None or cur["hunks"] or not cur["header"][0].startswith("diff "))):
      cur = {"header": [ln], "hunks": []}
      files.append(cur)
    elif cur is None:
      continue
    elif ln.startswith("@@"):
      cur["hunks"].append([ln])
    elif cur["hunks"]:
      cur["hunks"][-1].append(ln)
    else:
      cur["header"].append(ln)
  return files


def main():
  path, cmd = sys.argv[1], sys.argv[2]
  files = parse(path)
  idx = 0
  table = []
  for f in files:
    for h in f["hunks"]:
      idx += 1
      table.append((idx, f, h))
  if cmd == "list":
    for i, f, h in table:
      name = [x for x in f["header"] if x.startswith("+++ ")][0][4:].strip() if any(x.startswith("+++ ") for x in f["header"]) else f["header"][0]
      first = next((x.strip() for x in h[1:] if x.startswith(("+", "-"))), "")
      print(f"{i:3d} {name.split('ttconv/')[-1]:40s} {h[0].strip()[:30]:30s} {first[:90]}")
    return 0
  want = {int(x) for x in sys.argv[3].split(",")}
  out = []
  for f in files:
    hs = [h for i, ff, h in table if ff is f and i in want]
    if hs:
      hdr = [x for x in f["header"] if x.startswith(("diff ", "--- ", "+++ "))]
      hdr = [re.sub(r"\t.*$", "", x) if x.startswith(("--- ", "+++ ")) else x for x in hdr]
      out += hdr
      for h in hs:
        out += h
  open("/tmp/hunks.patch", "w", encoding="utf-8").write("".join(out))
  args = ["git", "-C", "/repo", "apply", "--recount", "--whitespace=nowarn"] + (["--check"] if "--check" in sys.argv else []) + ["/tmp/hunks.patch"]
  r = subprocess.run(args, capture_output=True, text=True)
  print(r.stdout, r.stderr)
  return r.returncode


if __name__ == "__main__":
  sys.exit(main())
