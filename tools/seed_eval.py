#!/usr/bin/env python3
"""Confirms a seeded property-breaking change and runs the registered check of its property against it.

  tools/seed_eval.py <property> <worktree> <k> [<check-property> ...]

worktree/SEED/<k>/ must hold patch.diff, demo.py, notes.txt (written by an independent sub-agent that saw only the property
text).  Steps: apply the patch in the scratch worktree; the repository's test-suite must still report the baseline
(446 passed / 13 failed); the demo must FAIL; the check(s) run with TTCONV_REPO=<worktree>; the patch is reverted and the demo
must PASS.  The result is stored under /verif/seeded/<property>-<k>/ (patch.diff, demo.py, notes.txt, meta.json)."""
import json
import os
import shutil
import subprocess
import sys

VERIF = os.path.dirname(os.path.dirname(os.path.abspath(__file__)))


def sh(cmd, cwd=None, env=None, timeout=3600):
  p = subprocess.run(cmd, shell=True, cwd=cwd, env=env, capture_output=True, text=True, timeout=timeout)
  return p.returncode, (p.stdout + p.stderr)


def main():
  prop, wt, k = sys.argv[1], sys.argv[2], sys.argv[3]
  checks = sys.argv[4:] or [prop]
  seed = os.path.join(wt, "SEED", k)
  env = dict(os.environ, PYTHONPATH=os.path.join(wt, "src", "main", "python"), PYTHONDONTWRITEBYTECODE="1")
  meta = {"property": prop, "seed": k, "ran": []}
  rc, out = sh("git checkout -- . && git status --short", cwd=wt)
  rc, out = sh(f"git apply {seed}/patch.diff", cwd=wt)
  meta["ran"].append(f"git apply SEED/{k}/patch.diff -> {rc}")
  if rc != 0:
    print("patch does not apply:", out)
    return 2
  try:
    rc, out = sh("/venv/bin/python -m pytest -q -p no:cacheprovider --timeout=900 --continue-on-collection-errors 2>&1 | tail -1", cwd=wt, env=env)
    meta["tests_with_change"] = out.strip()
    ok_tests = "446 passed" in out and "13 failed" in out
    rc, out = sh(f"/venv/bin/python {seed}/demo.py", cwd=wt, env=env)
    meta["demo_with_change"] = {"exit": rc, "tail": out.strip()[-600:]}
    demo_fails = rc != 0
    results = {}
    for c in checks:
      cenv = dict(os.environ, TTCONV_REPO=wt)
      rc, out = sh(f"python3-vt {VERIF}/check.py {c} --tier quick", cwd=VERIF, env=cenv)
      lines = [ln for ln in out.splitlines() if ln.startswith(("VIOLATION", "UNDECIDED", "CHECKER-ERROR")) or " quick: exit" in ln]
      results[c] = {"exit": rc, "lines": lines[:12], "n_violation_lines": sum(ln.startswith("VIOLATION") for ln in out.splitlines())}
      # keep one replay file's native output as illustration
      rdir = os.path.join(VERIF, "replay", c)
      if rc == 1 and os.path.isdir(rdir):
        fs = sorted(os.listdir(rdir))
        if fs:
          try:
            d = json.load(open(os.path.join(rdir, fs[0])))
            results[c]["first_replay"] = {"finding": d.get("finding"), "summary": (d.get("summary") or "")[:500],
                                          "reproduced_natively": d.get("reproduced_natively"), "native_output": (d.get("native_output") or "")[:500]}
          except Exception:  # pylint: disable=broad-except
            pass
    meta["checks"] = results
  finally:
    sh("git checkout -- .", cwd=wt)
  rc, out = sh(f"/venv/bin/python {seed}/demo.py", cwd=wt, env=env)
  meta["demo_without_change"] = {"exit": rc, "tail": out.strip()[-200:]}
  meta["confirmed"] = bool(ok_tests and demo_fails and rc == 0)
  try:
    meta["needs_to_manifest"] = open(os.path.join(seed, "notes.txt")).read()[:1500]
  except OSError:
    pass
  meta["caught_by"] = [c for c, r in meta.get("checks", {}).items() if r["exit"] == 1]
  dest = os.path.join(VERIF, "seeded", f"{prop}-{k}")
  os.makedirs(dest, exist_ok=True)
  try:      # keep the record of an earlier miss and of what was strengthened
    old = json.load(open(os.path.join(dest, "meta.json")))
    for key in ("caught_by_initially", "strengthening"):
      if key in old:
        meta[key] = old[key]
  except (OSError, ValueError):
    pass
  for f in ("patch.diff", "demo.py", "notes.txt"):
    if os.path.isfile(os.path.join(seed, f)):
      shutil.copy(os.path.join(seed, f), os.path.join(dest, f))
  json.dump(meta, open(os.path.join(dest, "meta.json"), "w"), indent=1)
  print(f"{prop}-{k}: confirmed={meta['confirmed']} tests='{meta.get('tests_with_change')}' demo_with={meta['demo_with_change']['exit']} "
        f"demo_without={meta['demo_without_change']['exit']} caught_by={meta['caught_by']}")
  for c, r in meta.get("checks", {}).items():
    for ln in r["lines"][:6]:
      print("    ", ln[:220])
  return 0


if __name__ == "__main__":
  sys.exit(main())
