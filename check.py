#!/usr/bin/env python3
"""Entry point of every registered check:  python3-vt /verif/check.py <property-id> [--tier quick|thorough]

Imports /verif/contracts/<id>.py, which declares the contracts (Tier A, proved) and the bounded run-time contracts
(Tier B) of the property, runs them against the current working tree of /repo and writes /verif/evidence/<id>.json.
"""
import argparse
import importlib
import os
import sys
import time
import traceback

VERIF = os.path.dirname(os.path.abspath(__file__))
sys.path.insert(0, VERIF)
sys.dont_write_bytecode = True
os.environ.setdefault("PYTHONDONTWRITEBYTECODE", "1")


def main():
  ap = argparse.ArgumentParser()
  ap.add_argument("prop")
  ap.add_argument("--tier", default=os.environ.get("VERIF_TIER", "quick"), choices=["quick", "thorough"])
  ap.add_argument("--only", default=None, help="substring filter on harness names (development)")
  ap.add_argument("--no-b", action="store_true", help="skip the bounded tier (development)")
  ap.add_argument("--no-a", action="store_true", help="skip the proof tier (development)")
  args = ap.parse_args()
  seed = int(os.environ.get("VERIF_SEED", "0") or 0)
  prop = args.prop.upper()
  t0 = time.time()
  try:
    from pyvc import loader
    loader.install()
    import framework
    mod = importlib.import_module("contracts." + prop.lower())
    outcome = mod.check(args.tier, seed, only=args.only, skip_a=args.no_a, skip_b=args.no_b)
    outcome.wall_s = time.time() - t0
    code = framework.finish(outcome)
  except Exception:  # pylint: disable=broad-except
    traceback.print_exc()
    print(f"CHECKER-ERROR property={prop} the checker itself crashed (no verdict)")
    code = 3
  sys.exit(code)


if __name__ == "__main__":
  main()
